"""C09 - TIFA's initialization / unused-variable diagnoses match the execution paths."""
import itertools
import json

import vlib
from vlib import cnat, clist

HEADER = ('From Coq Require Import List Bool Arith.\nImport ListNotations.\n'
          'From Pedal Require Import model.C09_Tifa model.C09_Run.\n')
NVARS = 3


# ------------------------------------------------------------------ programs as nested lists
# ('assign', x, rs) | ('expr', rs) | ('if', rs, th, el) | ('while', rs, body) | ('for', x, rs, body)
# | ('def', k, params, body) | ('call', k, rs)
def gen_block(rng, depth, nstmts, ext):
    out = []
    for _ in range(nstmts):
        k = rng.randrange(10)
        rs = [rng.randrange(NVARS) for _ in range(rng.choice([0, 0, 1, 1, 2]))]
        if k < 4 or depth <= 0:
            out.append(('assign', rng.randrange(NVARS), rs))
        elif k < 6:
            out.append(('expr', rs or [rng.randrange(NVARS)]))
        elif k < 9 or not ext:
            th = gen_block(rng, depth - 1, rng.randrange(0, 3), ext)
            el = gen_block(rng, depth - 1, rng.randrange(0, 3), ext) if rng.random() < 0.6 else []
            if not th:
                th = [('expr', [rng.randrange(NVARS)])] if rng.random() < 0.5 else [('assign', rng.randrange(NVARS), [])]
            out.append(('if', rs, th, el))
        else:
            body = gen_block(rng, depth - 1, rng.randrange(1, 3), ext)
            r = rng.random()
            if r < 0.35:
                out.append(('while', rs, body))
            elif r < 0.7:
                out.append(('for', rng.randrange(NVARS), rs, body))
            else:
                # a function reading globals, called at two different points
                k = rng.randrange(1000)
                x = rng.randrange(NVARS)
                out.append(('def', k, [('expr', [x])] + ([('expr', [rng.randrange(NVARS)])] if rng.random() < 0.4 else [])))
                r2 = rng.random()
                if r2 < 0.3:
                    # a function with a LOCAL of the same name as a module variable that is assigned on one branch only:
                    # the call must not make the module variable look assigned
                    out.pop()
                    y = rng.randrange(NVARS)
                    out.append(('def', k, [('assign', x, [])] + ([('expr', [y])] if y != x and rng.random() < 0.5 else [])))
                    if rng.random() < 0.7:
                        out.append(('if', [], [('assign', x, [])], []))
                    else:
                        out.append(('while', [], [('assign', x, [])]))
                    out.append(('call', k))
                    out.append(('expr', [x]))
                elif r2 < 0.65:
                    out.append(('call', k))
                    out.append(('assign', rng.randrange(NVARS), []))
                    out.append(('call', k))
                else:
                    # first called where the global is assigned, then (same arguments) where it may not be
                    out.append(('if', [], [('assign', x, []), ('call', k)], [('call', k)]))
    return out


def render_value(state, names):
    """an expression that reads the names left to right, never raises whatever their types are, and has a type chosen
    at random (int / str / float / list / bool): re-assignments change the type of a variable"""
    rnd = state.get('rnd')
    inner = '[%s]' % ', '.join(names)
    if rnd is None:
        return 'len(%s)' % inner
    k = rnd.randrange(8)
    if k < 3:
        return 'len(%s)' % inner
    if k == 3:
        return 'str(%s)' % inner
    if k == 4:
        return 'float(len(%s))' % inner
    if k == 5:
        return inner
    if k == 6 and len(names) == 2:
        return '(%s %s %s)' % (names[0], rnd.choice(['==', '!=', 'is', 'is not', '<=' if False else '==']), names[1])
    return '(len(%s) + 1)' % inner


def render_reads(state, names):
    """the argument list of a print: the names read left to right, sometimes inside a comparison"""
    rnd = state.get('rnd')
    if rnd is not None and len(names) == 2 and rnd.random() < 0.5:
        if rnd.random() < 0.35:
            # and / or / not whose operands are ALL evaluated at run time (a non-empty list is true, an empty one false)
            return rnd.choice(['[%s] and [%s]', '[] or [%s, %s]', 'not [%s] or [%s]', '[%s] and not [%s]']) % (names[0], names[1])
        return '%s %s %s' % (names[0], rnd.choice(['==', '!=', 'is', 'is not']), names[1])
    if rnd is not None and len(names) == 1 and rnd.random() < 0.3:
        if rnd.random() < 0.4:
            return rnd.choice(['[] or %s', '[0] and %s', 'not %s', '"" or [%s]']) % names[0]
        return '%s %s %s' % (rnd.choice(['0', '"n"']), rnd.choice(['==', '!=']), names[0])
    return ', '.join(names)


def render(block, ind, state):
    """-> python lines; assigns line numbers (state['line']) and counts choices"""
    lines = []
    for st in block:
        state['line'] += 1
        l = state['line']
        if st[0] == 'assign':
            lines.append('%sv%d = %s' % (ind, st[1], render_value(state, ['v%d' % r for r in st[2]])))
            st_l = l
        elif st[0] == 'expr':
            lines.append('%sprint(%s)' % (ind, render_reads(state, ['v%d' % r for r in st[1]])))
        elif st[0] == 'if':
            state['choices'] += 1
            lines.append('%sif input(%s):' % (ind, render_reads(state, ['v%d' % r for r in st[1]])))
            sub = render(st[2], ind + '    ', state)
            lines += sub
            if st[3]:
                state['line'] += 1
                lines.append('%selse:' % ind)
                lines += render(st[3], ind + '    ', state)
        elif st[0] == 'while':
            state['choices'] += 1
            state['loops'] += 1
            lines.append('%sfor _k%d in range(input(%s)):' % (ind, l, ', '.join('v%d' % r for r in st[1])) if False else
                         '%swhile input(%s):' % (ind, render_reads(state, ['v%d' % r for r in st[1]])))
            lines += render(st[2], ind + '    ', state)
        elif st[0] == 'for':
            state['choices'] += 1
            state['loops'] += 1
            lines.append('%sfor v%d in range(input(%s)):' % (ind, st[1], ', '.join('v%d' % r for r in st[2])))
            lines += render(st[3], ind + '    ', state)
        elif st[0] == 'def':
            lines.append('%sdef fn%d():' % (ind, st[1]))
            lines += render(st[2], ind + '    ', state)
        elif st[0] == 'call':
            lines.append('%sfn%d()' % (ind, st[1]))
    if not block:
        state['line'] += 1
        lines.append('%spass' % ind)
    return lines


def coq_block(block, state):
    out = 'BNil'
    items = []
    for st in block:
        state['line'] += 1
        l = state['line']
        if st[0] == 'assign':
            items.append('(Assign %s %s %s)' % (cnat(l), cnat(st[1]), clist([cnat(r) for r in st[2]])))
        elif st[0] == 'expr':
            items.append('(Expr %s %s)' % (cnat(l), clist([cnat(r) for r in st[1]])))
        elif st[0] == 'if':
            th = coq_block(st[2], state)
            if st[3]:
                state['line'] += 1
                el = coq_block(st[3], state)
            else:
                el = 'BNil'
            items.append('(If %s %s %s %s)' % (cnat(l), clist([cnat(r) for r in st[1]]), th, el))
        elif st[0] == 'while':
            # TIFA analyses the body once and reads the condition again (at the line of the `while`)
            body = coq_block(st[2], state)
            items.append('(once %s %s %s)' % (cnat(l), clist([cnat(r) for r in st[1]]), body))
        elif st[0] == 'for':
            # TIFA analyses  for x in f(rs): B  as the straight-line block  x = f(rs); B
            body = coq_block(st[3], state)
            items.append(('splice', '(for_analysed %s %s %s %s)' % (cnat(l), cnat(st[1]), clist([cnat(r) for r in st[2]]), body)))
        else:
            raise ValueError('not in the branch subset')
    if not block:
        state['line'] += 1
    for it in reversed(items):
        out = '(bapp %s %s)' % (it[1], out) if isinstance(it, tuple) else '(BCons %s %s)' % (it, out)
    return out


def all_small_programs():
    """every program of <= 2 top-level statements over 2 variables with one level of if/else (exhaustive scope)"""
    atoms = [('assign', x, rs) for x in range(2) for rs in ([], [0], [1])] + [('expr', [x]) for x in range(2)]
    blocks = [[]] + [[a] for a in atoms]
    stmts = list(atoms) + [('if', rs, th, el) for rs in ([], [0]) for th in blocks[1:] for el in blocks]
    progs = [[s] for s in stmts] + [[a, s] for a in atoms for s in stmts]
    return progs


SOURCE_PROGRAMS = [
    # the call that closes a recursion has arguments like any other call
    ('def fn1(p):\n    if input():\n        fn1(p - v1)\nfn1(3)\n', 2, 1),
    ('def fn1(p):\n    if input():\n        fn2(p)\ndef fn2(q):\n    fn1(q + v2)\nfn1(3)\n', 2, 1),
    ('v1 = 2\ndef fn1(p):\n    if input():\n        fn1(p - v1)\n    print(v3)\nfn1(3)\n', 2, 1),
    # a loop over a container that started empty and was filled by a method / an item assignment / on one branch only
    ('v0 = []\nv0.extend([1, 2])\nfor v2 in v0:\n    print(v1)\n', 0, 1),
    ('v0 = []\nv0.insert(0, 5)\nfor v2 in v0:\n    print(v1)\n', 0, 1),
    ('v0 = {}\nv0["k"] = 1\nfor v2 in v0:\n    print(v1)\n', 0, 1),
    ('if input():\n    v0 = []\nelse:\n    v0 = [1, 2]\nfor v2 in v0:\n    print(v1)\n', 1, 1),
    ('v0 = []\nv0 += [1]\nfor v2 in v0:\n    v3 = v1\nprint(v3)\n', 0, 1),
]


def correspondence(ctx):
    rng = ctx.rng
    progs = []
    if ctx.tier == 'quick':
        small = all_small_programs()
        rng.shuffle(small)
        progs += [(p, False) for p in small[:700]]
        progs += [(gen_block(rng, 3, rng.randrange(1, 6), False), False) for _ in range(500)]
        progs += [(gen_block(rng, 2, rng.randrange(1, 5), True), True) for _ in range(300)]
    else:
        progs += [(p, False) for p in all_small_programs()]
        progs += [(gen_block(rng, 3, rng.randrange(1, 7), False), False) for _ in range(4000)]
        progs += [(gen_block(rng, 3, rng.randrange(1, 5), True), True) for _ in range(2000)]
    # programs with while loops only (compared with the model on the once-unrolled program)
    def while_block(depth, n):
        out = []
        for _ in range(n):
            k = rng.randrange(10)
            rs = [rng.randrange(NVARS) for _ in range(rng.choice([0, 1, 1, 2]))]
            if k < 4 or depth <= 0:
                out.append(('assign', rng.randrange(NVARS), rs))
            elif k < 6:
                out.append(('expr', rs or [rng.randrange(NVARS)]))
            elif k < 8:
                out.append(('if', rs, while_block(depth - 1, rng.randrange(1, 3)), while_block(depth - 1, rng.randrange(0, 2))))
            elif k < 9:
                out.append(('while', rs, while_block(depth - 1, rng.randrange(1, 3))))
            else:
                out.append(('for', rng.randrange(NVARS), rs, while_block(depth - 1, rng.randrange(1, 3))))
        return out
    for _ in range(150 if ctx.tier == 'quick' else 1500):
        b = while_block(2, rng.randrange(1, 5))
        if any(x[0] in ('while', 'for') for x in flatten(b)):
            progs.append((b, True))
    # fixed: the known shape (for over a possibly empty iterable)
    progs.append(([('for', 2, [], [('assign', 0, [])]), ('expr', [0])], True))
    payload = []
    for block, ext in progs:
        st = {'line': 0, 'choices': 0, 'loops': 0, 'rnd': rng}
        code = '\n'.join(render(block, '', st)) + '\n'
        payload.append({'code': code, 'n_choices': st['choices'], 'truth': st['choices'] <= (6 if not st['loops'] else 4),
                        'max_iter': 2 if st['loops'] else 1})
    # programs given as source (soundness only, like the extended subset): recursion with arguments, loops over containers that
    # were filled after an empty start
    for code, n_choices, max_iter in SOURCE_PROGRAMS:
        progs.append(([], True))
        payload.append({'code': code, 'n_choices': n_choices, 'truth': True, 'max_iter': max_iter})
    res = vlib.run_impl('c09_impl.py', {'programs': payload}, timeout=1800)
    items = []
    idx = []
    while_items, while_idx = [], []
    for pi, ((block, ext), pl, r) in enumerate(zip(progs, payload, res)):
        t = r['tifa']
        init = sorted([(l, n, lab) for lab, n, l in t['issues'] if lab in ('initialization_problem', 'possible_initialization_problem', 'read_out_of_scope')])
        unused = sorted(set(n for lab, n, l in t['issues'] if lab == 'unused_variable'))
        ctx.case(pl['code'], nontrivial=bool(init), sample={'code': pl['code'], 'tifa': t['issues'], 'truth': (r.get('truth') or {}).get('sites')}
                 if init and len(pl['code']) < 160 else None)
        ctx.count('kind:' + ('extended' if ext else 'branch-subset'))
        if not t['success']:
            ctx.violation('tifa-failed', {'code': pl['code'], 'why': 'analysis failed internally: %s' % t['error']})
            continue
        sh = r.get('shared')
        if sh is not None:
            key = lambda x: (x[0], str(x[1]), x[2] or 0)
            if 'raised' in sh or sorted(sh['issues'], key=key) != sorted(t['issues'], key=key):
                ctx.violation('diagnoses-depend-on-earlier-programs',
                              {'code': pl['code'], 'alone': t['issues'], 'after-other-programs': sh,
                               'why': 'analysed on a report that analysed other programs before (not cleared), the program gets %s; analysed alone: %s'
                                      % (sh.get('issues', sh.get('raised')), t['issues'])})
        # ---- the property on the real implementation, against real executions
        truth = r.get('truth')
        if truth and 'error' in truth:
            ctx.count('ground-truth-execution-failed')      # (visible in the evidence: such programs are judged by the model only)
        if truth and 'sites' in truth:
            reported = {(l, n): lab for l, n, lab in init}
            for key, flags in truth['sites'].items():
                l, n = key.split(':')
                l = int(l)
                got = reported.get((l, n))
                if all(flags):
                    want = None
                elif not any(flags):
                    want = 'initialization_problem'
                else:
                    want = 'possible_initialization_problem'
                if ext:
                    # soundness only: an unassigned read on some real execution must be reported at that line
                    if want is not None and got is None:
                        in_for = set()
                        for s in flatten(block):
                            if s[0] == 'for':
                                in_for |= {'v%d' % t[1] for t in flatten(s[3]) if t[0] == 'assign'} | {'v%d' % s[1]}
                        shape = 'for-zero-iterations' if n in in_for else (
                            'while' if any(s[0] == 'while' for s in flatten(block)) else 'other')
                        ctx.violation('missed-uninitialised-read:' + shape,
                                      {'code': pl['code'], 'site': key, 'tifa': t['issues'],
                                       'why': 'line %d reads %s unassigned on %d of %d executions but TIFA reports nothing there'
                                              % (l, n, flags.count(False), len(flags))})
                else:
                    got_norm = 'initialization_problem' if got == 'read_out_of_scope' else got
                    if got_norm != want:
                        ctx.violation('inexact:%s-vs-%s' % (got_norm, want),
                                      {'code': pl['code'], 'site': key, 'flags': flags, 'tifa': t['issues'],
                                       'why': 'line %d read of %s: TIFA says %s, the executions say %s' % (l, n, got_norm, want)})
            # unused: reported iff touched on some execution and on NO execution read after its last assignment
            if not ext and 'finals' in truth:
                for name, flags in truth['finals'].items():
                    touched = [f for f in flags if f is not None]
                    if not touched:
                        continue
                    never_read = all(f is not True for f in flags)
                    always_read = all(f is True for f in flags)
                    if never_read and name not in unused:
                        ctx.violation('unused-not-reported', {'code': pl['code'], 'variable': name, 'flags': flags, 'tifa': t['issues'],
                                                             'why': '%s is never read after its last assignment on any execution but is not reported unused' % name})
                    if always_read and name in unused:
                        ctx.violation('used-reported-unused', {'code': pl['code'], 'variable': name, 'flags': flags, 'tifa': t['issues'],
                                                              'why': '%s is read after its last assignment on every execution but is reported unused' % name})
        # ---- programs with while loops only: real TIFA = the model on the once-unrolled program (initialisation issues, as sets)
        if ext and all(x[0] in ('assign', 'expr', 'if', 'while', 'for') for x in flatten(block)) and any(x[0] in ('while', 'for') for x in flatten(block)):
            st = {'line': 0}
            term = coq_block(block, st)
            issues = clist(['(%s, %s, %s)' % (cnat(l), cnat(int(n[1:])), 'InitProblem' if lab != 'possible_initialization_problem' else 'PossibleInitProblem')
                            for l, n, lab in init])
            while_items.append('(%s, %s)' % (term, issues))
            while_idx.append(pi)
            ctx.count('loop-program-compared-with-model:' + '+'.join(sorted({x[0] for x in flatten(block) if x[0] in ('while', 'for')})))
        # ---- model vs implementation (branch subset only)
        if not ext:
            st = {'line': 0}
            try:
                term = coq_block(block, st)
            except ValueError:
                continue
            issues = clist(['(%s, %s, %s)' % (cnat(l), cnat(int(n[1:])), 'InitProblem' if lab != 'possible_initialization_problem' else 'PossibleInitProblem')
                            for l, n, lab in init])
            items.append('(%s, %s, %s)' % (term, issues, clist([cnat(int(n[1:])) for n in unused if n.startswith('v')])))
            idx.append(pi)
    badw = ctx.coq_cases('while', HEADER, while_items, 'check_tifa_set', chunk=200)
    ctx.obligation('correspondence:while(real tifa_analysis on programs with while loops = the model on the once-unrolled program, %d programs)'
                   % len(while_items), not badw, str([payload[while_idx[i]]['code'] for k, i, d in badw if k == 'mismatch'][:3]))
    for kind, i, detail in badw[:3]:
        ctx.broken.append(('correspondence', 'C09:while-once-unrolled', json.dumps({'code': payload[while_idx[i]]['code'] if kind == 'mismatch' else None,
                                                                                   'tifa': res[while_idx[i]]['tifa'] if kind == 'mismatch' else None})[:1500]))
    bad = ctx.coq_cases('tifa', HEADER, items, 'check_tifa', chunk=200)
    for kind, i, detail in bad[:5]:
        ctx.broken.append(('correspondence', 'C09:model-vs-tifa', json.dumps({'code': payload[idx[i]]['code'] if kind == 'mismatch' else None,
                                                                              'tifa': res[idx[i]]['tifa'] if kind == 'mismatch' else None, 'detail': detail})[:2000]))
    ctx.obligation('correspondence:tifa(model issues and unused set = real tifa_analysis on the rendered program)', not bad,
                   '%d disagreeing programs' % len(bad))
    if bad and not ctx.violations:
        # the tie is broken: look for a concrete program on which the real TIFA contradicts real executions
        again = [dict(payload[idx[i]], truth=True, limit=11) for k, i, d in bad if k == 'mismatch'][:40]
        res2 = vlib.run_impl('c09_impl.py', {'programs': again}, timeout=1800)
        for pl2, r2 in zip(again, res2):
            truth = r2.get('truth')
            t = r2['tifa']
            if not truth or 'sites' not in truth:
                continue
            reported = {(l, n): lab for lab, n, l in t['issues'] if lab != 'unused_variable'}
            unused = set(n for lab, n, l in t['issues'] if lab == 'unused_variable')
            for key, flags in truth['sites'].items():
                l, n = key.split(':')
                got = reported.get((int(l), n))
                got = 'initialization_problem' if got == 'read_out_of_scope' else got
                want = None if all(flags) else ('initialization_problem' if not any(flags) else 'possible_initialization_problem')
                if got != want:
                    ctx.violation('inexact:%s-vs-%s' % (got, want), {'code': pl2['code'], 'site': key, 'flags': flags, 'tifa': t['issues'],
                                                                      'why': 'line %s read of %s: TIFA says %s, the %d executions say %s' % (l, n, got, len(flags), want)})
            for name, flags in truth.get('finals', {}).items():
                if any(f is not None for f in flags):
                    if all(f is not True for f in flags) and name not in unused:
                        ctx.violation('unused-not-reported', {'code': pl2['code'], 'variable': name, 'tifa': t['issues'],
                                                             'why': '%s is never read after its last assignment on any execution but is not reported unused' % name})
                    if all(f is True for f in flags) and name in unused:
                        ctx.violation('used-reported-unused', {'code': pl2['code'], 'variable': name, 'tifa': t['issues'],
                                                              'why': '%s is read after its last assignment on every execution but is reported unused' % name})
    ctx.rule = ('branch subset: (quick: 700 sampled / thorough: all) programs of <=2 statements over 2 variables with one if/else level, '
                'plus random programs up to 6 statements, nesting 3, 3 variables, reads in conditions, empty branches; each rendered to '
                'Python, analysed by the real TIFA, compared with the Coq model, and EXECUTED under every branch-outcome vector '
                '(<= 6 conditions) with a recording namespace to obtain the ground truth per read site. extended subset (while/for): '
                'soundness against real executions with 0-2 iterations; functions reading globals called at two points, and functions with a LOCAL named like a module variable that is assigned on one branch only. non-trivial = at least one initialization issue.')


def flatten(block):
    for st in block:
        yield st
        if st[0] == 'if':
            yield from flatten(st[2])
            yield from flatten(st[3])
        elif st[0] == 'while':
            yield from flatten(st[2])
        elif st[0] == 'for':
            yield from flatten(st[3])
        elif st[0] == 'def':
            yield from flatten(st[2])


def translate(ctx):
    pass


def run(ctx):
    ctx.coq_props()
    correspondence(ctx)
