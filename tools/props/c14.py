"""C14 - a time-limit violation yields exactly one timeout report and a usable sandbox."""
import json

import vlib
from vlib import cnat, cbool
from translate import sandbox_flow
from props.c05 import translate  # noqa: F401  (same regenerated skeletons)

HEADER = ('From Coq Require Import List Bool Arith.\nImport ListNotations.\n'
          'From Pedal Require Import lib.ExnFlow model.C05_Effects gen.C05_Gen model.C14_Run.\n')

PROGRAMS = {
    'busy': 'x = 0\nwhile True:\n    x += 1\n',
    'printing': 'while True:\n    print("spam")\n',
    'swallow-exception': 'while True:\n    try:\n        while True:\n            pass\n    except Exception:\n        pass\n',
    'swallow-exception-printing': 'n = 0\nwhile True:\n    try:\n        n += 1\n        if n % 100000 == 0:\n            print("tick")\n    except Exception:\n        pass\n',
    'swallow-base': 'while True:\n    try:\n        while True:\n            pass\n    except BaseException:\n        pass\n',
    'blocking-lock': 'import threading\nlock = threading.Lock()\nlock.acquire()\nlock.acquire()\n',
    'sleepy': 'import time\nwhile True:\n    time.sleep(0.01)\n',
    'convert-exit': 'try:\n    while True:\n        pass\nexcept BaseException:\n    raise ValueError("converted")\n',
    'finish-late': 'try:\n    while True:\n        pass\nexcept BaseException:\n    pass\nprint("late")\n',
}
# submissions of two files: the main file imports a second student file that never finishes
HELPERS = {
    'import-busy-helper': ('import helper\nprint("after")\n', 'x = 0\nwhile True:\n    x += 1\n'),
    'import-printing-helper': ('import helper\nprint("after")\n', 'n = 0\nwhile True:\n    n += 1\n    if n % 100000 == 0:\n        print("tick")\n'),
    'from-import-helper-function': ('from helper import spin\nspin()\n', 'def spin():\n    while True:\n        pass\n'),
}
for _k, (_m, _h) in HELPERS.items():
    PROGRAMS[_k] = _m
SCHED = {'A': 0, 'B': 1, 'C': 2, 'N': 3}


def site_ids():
    f = sandbox_flow.flow()
    f.assume = {'threaded': False, 'self._was_terminated()': True, 'not self._was_terminated()': False}
    f.function('_execute')
    ex = [i for i, d in enumerate(f.sites) if d.startswith('call exec ')]
    g = sandbox_flow.flow()
    g.function('_execute_with_timeout')
    to = [i for i, d in enumerate(g.sites) if d.startswith('call timeout ')]
    if len(ex) != 1 or len(to) != 1:
        raise vlib.Refusal('exec/timeout sites: %s %s' % (ex, to))
    return ex[0], to[0]


def oracle(case, r):
    allowed = case['allowed']
    if r['escaped'] or r['next_escaped']:
        return ('escaped', 'an exception escaped: %s / %s' % (r['escaped'], r['next_escaped']))
    if r['wall'] > allowed + 2.5:
        return ('slow-return', 'the call returned after %.2fs for a limit of %.2fs' % (r['wall'], allowed))
    if r['exception_at_return'] != 'TimeoutError':
        return ('exception-at-return', 'sandbox exception when the call returned is %s' % r['exception_at_return'])
    if r['labels_at_end'][:len(r['labels_at_end'])] != ['timeout_error']:
        return ('feedback-count', 'runtime feedback at the end: %s (expected exactly the timeout)' % r['labels_at_end'])
    if r['next_output'] != 'next-1\nnext-2\n':
        if case['name'] == 'finish-late' and r['next_output'] is not None and \
                r['next_output'].replace('late\n', '', 1) == 'next-1\nnext-2\n':
            # student code that swallows the injected SystemExit keeps running and prints into whatever sys.stdout is then
            return ('abandoned-thread-keeps-printing', 'the abandoned thread swallowed the termination and its later print() landed '
                    'in the NEXT execution\'s captured output: %r' % r['next_output'])
        return ('next-output', 'output of the next execution is %r' % r['next_output'])
    if not r.get('student_dead_at_end', True) and 'BaseException' not in case['program'] and 'acquire' not in case['program']:
        # code that does not catch BaseException cannot survive the termination
        return ('abandoned-thread-still-running', 'the timed-out student thread of %r is still running a second after the next execution '
                'finished although the program never catches BaseException' % case['name'])
    lr = r.get('later_result')
    if lr is not None and 'swallow-base' not in case['name'] and 'acquire' not in case['program']:
        if 'raised' in lr:
            return ('later-result-unusable', 'after the timeout, run/call/get_context/assert_equal on a later result raised %s' % lr['raised'])
        if not (lr['value_ok'] and lr['context_is_the_call'] and lr['assert_equal_passes']) or lr['new_feedback']:
            return ('later-result-unusable', 'after the timeout a later call() result is not usable: %s' % lr)
    if r['exception_after_next'] is not None:
        return ('next-exception', 'the next (clean) execution ends with exception %s' % r['exception_after_next'])
    if r['patch_depth'] or r['stdout_depth'] or not r['stdout_restored']:
        return ('unclean', 'patches=%d stdout stack=%d stdout restored=%s' % (r['patch_depth'], r['stdout_depth'], r['stdout_restored']))
    return None


def correspondence(ctx):
    progs = list(PROGRAMS) if ctx.tier != 'quick' else ['busy', 'printing', 'swallow-exception', 'swallow-exception-printing', 'swallow-base', 'convert-exit', 'finish-late']
    scheds = ['N', 'A', 'B', 'C']
    if ctx.tier == 'quick':
        progs = progs + ['import-busy-helper', 'import-printing-helper']
    cases = [{'name': p, 'program': PROGRAMS[p], 'schedule': s, 'allowed': 0.3} for p in progs for s in scheds
             if not (p in HELPERS and s in ('B', 'C') and ctx.tier == 'quick')]
    # the same after the sandbox has been used and its history cleared
    cases += [{'name': p, 'program': PROGRAMS[p], 'schedule': s, 'allowed': 0.3, 'warmup': True}
              for p in (progs if ctx.tier != 'quick' else ['busy', 'printing']) for s in ('N', 'A') if p not in HELPERS]
    # the same, issued while the grading script is itself handling an exception (try: int('x') / except ValueError: run(...))
    cases += [{'name': p, 'program': PROGRAMS[p], 'schedule': s, 'allowed': 0.3, 'in_except': True}
              for p in (progs if ctx.tier != 'quick' else ['busy', 'printing', 'finish-late']) for s in ('N', 'A', 'B')]
    for c in cases:
        if c['name'] in HELPERS:
            c['files'] = {'answer.py': HELPERS[c['name']][0], 'helper.py': HELPERS[c['name']][1]}
    res = vlib.run_impl('c14_impl.py', {'cases': cases}, timeout=1200)
    es, ts = site_ids()
    items = []
    for case, r in zip(cases, res):
        if r.get('hang'):
            ctx.violation('hang:%s' % case['schedule'], {'case': case, 'why': 'run(threaded=True) had not returned 25 s after a %.1f s limit'
                                                        % case['allowed']})
            break
        ctx.case((case['name'], case['schedule'], bool(case.get('in_except')), bool(case.get('warmup'))), nontrivial=True,
                 sample={'program': case['name'], 'schedule': case['schedule'],
                         'observed': {k: r[k] for k in ('wall', 'exception_at_return', 'labels_at_end', 'next_output', 'hook_log')}}
                 if case['name'] == 'busy' else None)
        ctx.count('schedule:' + case['schedule'])
        ctx.count('program:' + case['name'])
        forced = any(p == 'execute.systemexit' for p, _ in r['hook_log'])
        ctx.count('student-handler-observed' if forced else 'student-handler-never-ran')
        v = oracle(case, r)
        if v and v[0] == 'abandoned-thread-keeps-printing':
            ctx.violation(v[0], {'case': case, 'observed': r, 'why': v[1]})
            continue   # the model does not follow student code that keeps running after swallowing the termination
        if v:
            key = v[0] if v[0] == 'abandoned-thread-keeps-printing' else '%s:%s' % (v[0], case['schedule'])
            ctx.violation(key, {'case': case, 'observed': r, 'why': v[1]})
        sched = SCHED[case['schedule']] if forced else 3
        clean = not (r['patch_depth'] or r['stdout_depth']) and r['stdout_restored']
        items.append('(%s, %s, %s, %s, %s, %s)' % (cnat(sched), cnat(es), cnat(ts), cnat(len(r['labels_at_end'])),
                                                   cbool(clean), cbool(r['next_output'] == 'next-1\nnext-2\n')))
    bad = ctx.coq_cases('schedules', HEADER, items, 'check_schedule')
    ctx.obligation('correspondence:schedules(model prediction per forced ordering = observed #feedback / clean / next output)',
                   not bad, str([(cases[i]['name'], cases[i]['schedule'], items[i]) for k, i, d in bad if k == 'mismatch'][:4]))
    for b in bad[:3]:
        ctx.broken.append(('correspondence', 'C14:schedule', items[b[1]] if b[0] == 'mismatch' else b[2]))
    ctx.rule = ('student programs (busy loop, printing loop, loop swallowing Exception, loop swallowing BaseException, blocking on a '
                'lock, sleeping loop) x forced orderings through the three guarded hooks: natural, student handler entirely before '
                'the grader handler, entirely after, in the middle of the next execution; observed: wall time, exception at return, '
                'runtime feedback labels at the end, output of the next execution, stack depths.')
    ctx.notes.append('interleavings finer than the three hook points are covered by the theorem only (all interleavings of the '
                     'regenerated step lists); bounded return delay is measured, not proved')


def run(ctx):
    translate(ctx)
    ctx.coq_props()
    correspondence(ctx)
