#!/usr/bin/env python3
"""Regenerate MANIFEST.json from the table below (keeps it schema-valid)."""
import json, os
HERE = os.path.dirname(os.path.dirname(os.path.abspath(__file__)))
props = [json.loads(l) for l in open(os.path.join(HERE, 'properties.jsonl'))]

RES_NOTE = ("Trusted: Coq kernel; translator for DEFAULT_CATEGORY_PRIORITY / FeedbackCategory.ALIASES / priority_offset (regenerated each run); "
            "hand model of by_priority, Report.suppress, FinalFeedback.merge/finalize, Score.parse/add_to_current/combine_scores tied by "
            "correspondence on generated real reports (attributes snapshotted after construction) and exhaustive sweeps of by_priority and Score.parse "
            "classes. Strings ASCII. Scores are exact rationals: IEEE rounding in total+=value is outside the model (cases whose exact sum sits on a "
            "two-decimal rounding boundary are skipped and counted). sectional.resolve and pools are not modelled.")
CLAIMED = {
 'C01': dict(
   text="Coq theorems (props/C01.v, closed): for every list of feedback (any category/priority/kind/flags/fields, any order) and every list of suppress() calls, the feedback whose title/message/label is delivered is eligible, has minimal key among eligible ones and is the earliest of that key (stable-sort lemma), key = documented rank table (regenerated) + priority shift; default result iff nothing eligible; resolve raises only for unparsable score strings or /0. Model of the repaired merge; tie by correspondence with simple.resolve/full.resolve and an independent oracle written from the property statement.",
   note=RES_NOTE, technique="Coq proof (stable sort + fold invariant) over a model tied by correspondence", design="3/C01"),
 'C02': dict(
   text="Coq theorem C02_correct_iff: result.correct = true <-> every triggered, unmuted, unsuppressed, non-compliment feedback has a truthy correct flag, for every feedback list and suppression list (hypotheses: shown feedback has a message - established by C20 - and nobody uses the reserved default label). Same model and tie as C01.",
   note=RES_NOTE, technique="Coq proof (fold invariant) over a model tied by correspondence", design="3/C02"),
 'C03': dict(
   text="Coq theorem C03_score_spec over exact rationals: non-default result => score = round2(sum over all feedback of the documented contribution) for every feedback list/suppression list with additive score forms; muting does not affect the contribution; '!'-prefix parsing lemma; permutation-invariance of the sum under the priority sort. Same model and tie as C01, plus exhaustive correspondence of Score.parse/add_to_current on operator x inversion x value-shape classes.",
   note=RES_NOTE, technique="Coq proof over Q (fold invariant + permutation) tied by correspondence", design="3/C03"),
 'C08': dict(
   text="Coq theorems (props/C08.v, closed under the global context) over a rose-tree model of the program: the operator tables regenerated from pedal/utilities/operators.py agree with CPython's symbol->class table for every symbol; find_operation returns exactly as many nodes as a plain walk finds, for every tree and symbol; ensure fires iff count<n and prevent fires iff count>m for every count/threshold, from the threshold bodies regenerated (PyMini deep embedding) from static.py on every run. Tie: translators + correspondence run (model vs real ensure_*/prevent_*/find_* on generated programs) + an ast.walk oracle on the real code.",
   note="Trusted: Coq kernel; translators tools/translate/{tables,pymini}.py; the tree abstraction in tools/impl/c08_impl.py; the CPython class table (validated against the live ast module each run). Literal/import occurrence sets are compared by count and line only. Hand model (validated by correspondence, not regenerated): find_all, find_operation control flow, find_function_calls, has_import.",
   technique="Coq proof over regenerated tables/threshold code + model-vs-implementation correspondence",
   design="3/C08"),
}
CLAIMED['C15'] = dict(
   text="Coq theorems (props/C15.v, closed), each by induction over EVERY history of run/call/evaluate/clear_output/set_input/queue_input/clear_input operations: raw output = concatenation of the texts written since the last clear; line view = concatenation over non-silent executions of [l.rstrip() for l in text.rstrip().split('\\n')] (a silent execution adds nothing); each execution's record holds its own text; input() is FIFO, each element once, then '0'. Hand model (state machine) tied by correspondence: the real sandbox is observed after every operation of generated histories, and an oracle written from the property statement checks the observations directly.",
   note="Trusted: Coq kernel; the abstraction of a student program to its event list (writes/prompts), computed with CPython's print semantics by the harness; is_space table (Python whitespace, exercised by the generator alphabet). Model of the repaired append_output guard. Callable input sources, real_io mode and MAXIMUM_INPUTS are not modelled.",
   technique="Coq proof by induction over operation histories + state-machine correspondence", design="3/C15")
CLAIMED['C17'] = dict(
   text="Coq theorems (props/C17.v, closed), for EVERY whole-line marker predicate and every file text: the split is lossless (chunks concatenate back to the file), chunks alternate code/marker with an odd count, section k is exactly chunk 2k (or the prefix up to it in cumulative mode), every character of an independent section sits on whole-file line offset + its line in the section (offset = newlines before the chunk; 0 and a prefix in cumulative mode), a request past the end yields the feedback and never fails, and after ANY sequence of separate/next/stop/resolve/set_source/restore the main code is the original whenever no substitution is outstanding. Tie: correspondence of the state machine with the real section machinery after every operation and with re.split; an oracle plants one diagnostic per tool (syntax error, uninitialised read, 1/0, error inside a called function) at a known file line and checks location.line and traceback text.",
   note="Trusted: Coq kernel; hand model of re.split with ONE whole-match capturing group under MULTILINE (validated against re.split on every generated file; patterns that are not whole-line predicates are outside the model); that each tool adds the offset (report_line) is a definitional table in Coq - its tie to syntax_error / TifaCore.locate / ExpandedTraceback / runtime location is the planted-diagnostic oracle only. Model of the repaired code (three fix commits).",
   technique="Coq proof (list/position lemmas, stack invariant by induction over operations) + state-machine correspondence", design="3/C17")
CLAIMED['C20'] = dict(
   text="Coq theorems (props/C20.v, closed): for every creation spec (condition truthy/falsy/raising, message explicit/template/raising/none, else-message likewise, justification, delayed, report) the object is recorded exactly once, in the triggered list iff the condition held and nothing raised, bool = outcome, the error path (untriggered, error status, exception propagates), delayed feedback is not recorded; message_spec/message_total; every name of Formatter.available (regenerated each run) dispatches to the formatter of that name, alone or after a width spec (guards the filename/name suffix clash); after ANY history of override()/clear, a clear restores every class's own attributes and hence every inherited lookup (invariant proof). Tie: exhaustive correspondence of creation over the 1280-spec space, recording-formatter runs, and override histories on a real 4-class hierarchy observed after every operation; plus direct oracles.",
   note="Trusted: Coq kernel; T1 translator for Formatter.available; hand models of _handle_condition, FeedbackFieldWrapper.__format__/chomp_spec and override/_restore_overrides (repaired version) tied by correspondence. report=None is not supported by Feedback.__init__ at all (AttributeError before the condition runs) and is excluded. Hooks run by add_feedback, FeedbackGroup parents and pools are not modelled.",
   technique="Coq proof (finite case analysis, finite table check, invariant over operation histories) + exhaustive/ random correspondence", design="3/C20")
SB_NOTE = ("Trusted: Coq kernel; the T4 translator tools/translate/exnflow.py (only calls may raise; attribute reads/subscripts are treated as non-raising; loops without tracked calls collapse to one site) and its contract table tools/translate/sandbox_flow.py (exec: any BaseException; compile: SyntaxError/ValueError/RecursionError; pedal-internal bookkeeping and _capture_exception: no raise - the latter is exercised by the zoo, incl. exceptions with broken __str__/__repr__); the exception lattice abstraction (7 classes); micro-model of mock.patch start/stop as a LIFO stack. What student code DOES is an oracle: theorems quantify over what it may raise, not over programs. Wall-clock behaviour is not modelled.")
CLAIMED['C05'] = dict(
   text="Coq theorems (props/C05.v, closed) over skeletons of Sandbox._execute/run/call/evaluate/_execute_with_timeout REGENERATED from the source on every run: for EVERY oracle (student code raising any BaseException class, compile failing, any branch) the patch stack, stdout stack and trace function are exactly restored whether the execution returns or propagates (complete path enumeration + paths_complete metatheorem); a balanced trace leaves any state unchanged, hence every history of executions does; after a timeout the abandoned thread touches nothing shared and the caller's handler undoes exactly what was started. Tie: regeneration + the exception zoo (identity of sys.stdout/time.sleep/sys.gettrace(), sys.modules keys, stack depths before/after every execution, histories, nested calls, time-outs) + skeleton-path prediction vs observation.",
   note=SB_NOTE, technique="Coq proof over regenerated exception-flow skeletons (complete path enumeration lifted by a completeness metatheorem) + differential zoo", design="3/C05")
CLAIMED['C04'] = dict(
   text="Coq theorem C04_execute_contains over the regenerated skeleton of Sandbox._execute: for EVERY oracle the execution returns to the caller unless the class is outside Exception/SystemExit, with exactly one captured failure when student code did not finish and none when it did. PARTIAL: that the recording code itself does not raise is a contract entry, and 'located on the student line' / 'feedback describes that class' are checked only by the zoo oracle (every builtin exception class, user classes with broken __str__/__repr__, SystemExit forms, recursion, blocked builtins, syntax errors incl. NUL, via run/call/evaluate/import, deep frames, epilogues, re-raised objects).",
   note=SB_NOTE, technique="Coq proof over regenerated exception-flow skeleton + exception zoo oracle", design="3/C04")
CLAIMED['C14'] = dict(
   text="Coq theorem C14_all_interleavings_ok (closed): for every behaviour (oracle) of the interrupted student thread, of the caller's timeout handler and of the next execution, and for EVERY interleaving (inductive relation; enumeration proved complete in C14_merges_complete) of the student thread's post-termination steps with the grader's steps (handler, then next execution): no step fails, the patch and stdout stacks end empty, the timed-out execution contributes exactly one captured failure - the handler's TimeoutError - and the next execution records its own output once. Step lists are regenerated from sandbox.py/timeout.py on every run; C14_terminate_sets_flag_first proves the terminated flag is set before the SystemExit is injected. Tie: regeneration + the three guarded hooks forcing the coarse orderings (student handler before / after / inside the next run / never) on the real code for busy, printing, swallowing, converting and late-finishing programs.",
   note=SB_NOTE + " Interleavings finer than the three hook points are covered by the theorem only; CPython's delivery of the asynchronous SystemExit and the bounded return delay are runtime behaviour: measured (watchdog, wall time), not proved. Hooks: PEDAL_EDU_PEDAL_VERIF=1, /repo commit in MANIFEST.hooks.",
   technique="Coq proof over all interleavings of regenerated step lists + hook-forced schedules on the real code", design="3/C14")
CLAIMED['C12'] = dict(
   text="Coq theorems (props/C12.v, closed) over the skeleton of source.verify REGENERATED on every run: for EVERY parser outcome (tree, SyntaxError, IndentationError, RecursionError/MemoryError) and every branch, verify never raises; unless the file could not be loaded, exactly one syntax-category feedback is attached iff the parser returned no tree; a returned tree is stored with success=True, otherwise the empty tree with success=False; IndentationError is never reported as a plain syntax error. Line = parser line + section offset, blank-source reporting and tree identity are checked by the differential oracle against the live ast.parse on corrupted sources, whole-file and inside a section.",
   note="Trusted: Coq kernel; T4 translator and its contract table in tools/props/c12.py (ast.parse may raise SyntaxError/IndentationError/RecursionError/MemoryError - on CPython 3.12 a NUL byte is a SyntaxError; the feedback constructors do not raise: exercised on every rejected text of the run). The parser itself is an oracle. PARTIAL: the line-number arithmetic inside syntax_error is not modelled in Coq (covered by C17's offset theorem and the differential oracle).",
   technique="Coq proof over regenerated exception-flow skeleton + differential oracle against ast.parse", design="3/C12")
CLAIMED['C18'] = dict(
   text="PARTIAL. Proved in Coq (props/C18.v, closed): over the skeleton of Tifa.process_code REGENERATED on every run, for EVERY oracle (the parser and the traversal may raise any Exception subclass incl. RecursionError) process_code returns an analysis, completes iff both stages returned, and marks a failure once with one system_error; for the per-code cache of tifa_analysis, by induction over ANY call sequence: a repeated code returns the same result and attaches nothing, and feedback grows only by first analyses. NOT proved (tested): determinism (every generated program analysed under two PYTHONHASHSEEDs and again on a fresh report later in the same process), 'completes on the introductory subset' (every documented builtin function and str/list/dict/number method, standard-module uses, random mixes), issue lines within the source.",
   note="Trusted: Coq kernel; T4 translator + contract table in tools/props/c18.py (str() of CPython/pedal exceptions and the system_error constructor do not raise); hand model of the cache in tifa_analysis tied by correspondence on call sequences (object identity, feedback counts after every call).",
   technique="Coq proof over regenerated exception-flow skeleton + cache state machine by induction; generation-based testing for the unproved parts", design="3/C18")
CLAIMED['C09'] = dict(
   text="Coq theorems (props/C09.v, closed), by mutual induction on programs of ANY size and nesting over assignments / expression statements / if-elif-else: TIFA's three-valued (yes/no/maybe) analysis is the EXACT abstraction of the collecting path semantics - the issue list (Initialization Problem / Possible Initialization Problem / none per read site) equals the classification by all-paths / no-path / some-paths assigned, and a variable is reported unused iff it is touched on some path and read after its last assignment on none; every single execution (any branch-outcome sequence) is contained in the collecting semantics. PARTIAL: loops and function calls are outside the theorem ('no missed uninitialised read' is checked against real executions only). Tie: the hand model vs the real tifa_analysis on rendered programs (exhaustive small scope + random), and the SPECIFICATION vs CPython itself: each program is executed under every branch-outcome / iteration-count vector with a recording namespace.",
   note="Trusted: Coq kernel; hand model of store_variable/load_variable/combine_states/merge_paths/_finish_scope with per-path maps flattened to full environments (validated by correspondence, not regenerated); the rendering of model programs to Python (opaque conditions = input()). Single module scope. Known finding: for-loops over possibly empty iterables.",
   technique="Coq proof (exact abstraction, mutual structural induction) + 3-way differential: model / real TIFA / real CPython executions", design="3/C09")
REASONS = {}
DEFAULT_REASON = "check not built yet (work in progress; see DESIGN.md section 6 for the order)"

m = {"version": 1,
     "setup_cmd": "./setup.sh",
     "hooks": {"guard": "PEDAL_EDU_PEDAL_VERIF",
               "enable": "checks export PEDAL_EDU_PEDAL_VERIF=1 themselves; pedal is pure Python imported from /repo via PYTHONPATH (nothing to build)",
               "baseline_off_cmd": "cd /repo && env -u PEDAL_EDU_PEDAL_VERIF /venv/bin/python -m pytest -ra -q -p no:cacheprovider --timeout=900 --continue-on-collection-errors",
               "source_commits": json.load(open(os.path.join(HERE, 'hooks.json')))['source_commits'] if os.path.exists(os.path.join(HERE, 'hooks.json')) else [],
               "add_only": True},
     "engines": [{"name": "coq-proof+correspondence", "path": "check", "serves_properties": sorted(CLAIMED),
                  "kind_free_text": "Coq 8.16.1 development under coq/ (models, lemmas, property theorems), fail-closed Python-ast translators regenerating coq/gen/*.v from /repo on every run, vm_compute correspondence harness against the real implementation, ast-level oracles for replay search"}],
     "checks": [],
     "notes": "Machine-checked proof in Coq 8.16.1; see DESIGN.md. ./check <ID> --tier quick|thorough; VERIF_REPO overrides the repository path (default /repo).",
     "not_applicable": []}
for p in props:
    pid = p['id']
    if pid in CLAIMED:
        c = CLAIMED[pid]
        m['checks'].append({
            "property_id": pid,
            "quick_cmd": "./check %s --tier quick" % pid,
            "thorough_cmd": "./check %s --tier thorough" % pid,
            "evidence_file": "/verif/evidence/%s.json" % pid,
            "replay_cmd_template": "./check %s --replay {path}" % pid,
            "engine": "coq-proof+correspondence",
            "level_claimed": {"category": c.get('category', 'proof'), "text": c['text'], "design_ref": c['design']},
            "level_note": c['note'],
            "technique": c['technique']})
    else:
        m['not_applicable'].append({"property_id": pid, "reason": REASONS.get(pid, DEFAULT_REASON)})
json.dump(m, open(os.path.join(HERE, 'MANIFEST.json'), 'w'), indent=1)
print('claimed:', sorted(CLAIMED))
