#!/usr/bin/env python3
"""Regenerate MANIFEST.json from the table below (keeps it schema-valid)."""
import json, os
HERE = os.path.dirname(os.path.dirname(os.path.abspath(__file__)))
props = [json.loads(l) for l in open(os.path.join(HERE, 'properties.jsonl'))]

CLAIMED = {
 'C08': dict(
   text="Coq theorems (props/C08.v, closed under the global context) over a rose-tree model of the program: the operator tables regenerated from pedal/utilities/operators.py agree with CPython's symbol->class table for every symbol; find_operation returns exactly as many nodes as a plain walk finds, for every tree and symbol; ensure fires iff count<n and prevent fires iff count>m for every count/threshold, from the threshold bodies regenerated (PyMini deep embedding) from static.py on every run. Tie: translators + correspondence run (model vs real ensure_*/prevent_*/find_* on generated programs) + an ast.walk oracle on the real code.",
   note="Trusted: Coq kernel; translators tools/translate/{tables,pymini}.py; the tree abstraction in tools/impl/c08_impl.py; the CPython class table (validated against the live ast module each run). Literal/import occurrence sets are compared by count and line only. Hand model (validated by correspondence, not regenerated): find_all, find_operation control flow, find_function_calls, has_import.",
   technique="Coq proof over regenerated tables/threshold code + model-vs-implementation correspondence",
   design="3/C08"),
}
REASONS = {}
DEFAULT_REASON = "check not built yet (work in progress; see DESIGN.md section 6 for the order)"

m = {"version": 1,
     "setup_cmd": "./setup.sh",
     "hooks": {"guard": "PEDAL_EDU_PEDAL_VERIF",
               "enable": "checks export PEDAL_EDU_PEDAL_VERIF=1 themselves; pedal is pure Python imported from /repo via PYTHONPATH (nothing to build)",
               "baseline_off_cmd": "cd /repo && env -u PEDAL_EDU_PEDAL_VERIF /venv/bin/python -m pytest -ra -q -p no:cacheprovider --timeout=900 --continue-on-collection-errors",
               "source_commits": json.load(open(os.path.join(HERE, 'hooks.json')))['source_commits'] if os.path.exists(os.path.join(HERE, 'hooks.json')) else [],
               "add_only": True},
     "engines": [{"name": "coq-proof+correspondence", "path": "check", "serves_properties": sorted(CLAIMED),
                  "kind_free_text": "Coq 8.16.1 development under coq/ (models, lemmas, property theorems), fail-closed Python-ast translators regenerating coq/gen/*.v from /repo on every run, vm_compute correspondence harness against the real implementation, ast-level oracles for replay search"}],
     "checks": [],
     "notes": "Machine-checked proof in Coq 8.16.1; see DESIGN.md. ./check <ID> --tier quick|thorough; VERIF_REPO overrides the repository path (default /repo).",
     "not_applicable": []}
for p in props:
    pid = p['id']
    if pid in CLAIMED:
        c = CLAIMED[pid]
        m['checks'].append({
            "property_id": pid,
            "quick_cmd": "./check %s --tier quick" % pid,
            "thorough_cmd": "./check %s --tier thorough" % pid,
            "evidence_file": "/verif/evidence/%s.json" % pid,
            "replay_cmd_template": "./check %s --replay {path}" % pid,
            "engine": "coq-proof+correspondence",
            "level_claimed": {"category": c.get('category', 'proof'), "text": c['text'], "design_ref": c['design']},
            "level_note": c['note'],
            "technique": c['technique']})
    else:
        m['not_applicable'].append({"property_id": pid, "reason": REASONS.get(pid, DEFAULT_REASON)})
json.dump(m, open(os.path.join(HERE, 'MANIFEST.json'), 'w'), indent=1)
print('claimed:', sorted(CLAIMED))
