"""Operand universe shared by the C07 harness and its implementation runner."""
import dataclasses


@dataclasses.dataclass
class Point:
    """what a student function of a dataclass-based course returns"""
    x: int
    y: float


class Dog:
    """A dog that barks loudly."""
    species = "Canis familiaris"

    def __init__(self, name):
        self.name = name

    def __repr__(self):
        return 'Dog(%r)' % self.name

    def __eq__(self, other):
        return isinstance(other, Dog) and other.name == self.name

    def __hash__(self):
        return hash(self.name)


VALUES = [0, 1, 5, -3, True, False, 2.5, 5.0, 5.0005, 5.002, 4.9995, float('nan'), 'abc', 'ABC', 'a,b.c!', 'abc ', '', 'b', [1, 2], [2, 1], [], [1, [2, 3]],
          (1, 2), (), {'a': 1}, {'a': 1.0004}, {1, 2}, {2}, set(), None, [1.0, 2.0004], 'xyz', 3, {'k': 'abc'}, {'k': 'ABC'}, {'k': 1.05}, {'k': 1.0}, [{'k': 'Abc'}], [{'k': 'abc'}],
          # equal only within the tolerance AND built in a different key order; same keys with swapped values
          {'a': 1.0, 'b': 2.0}, {'b': 2.0004, 'a': 1.0004}, {'b': 1.0, 'a': 2.0}, [{'a': 1.0, 'b': 2.0}], [{'b': 2.0004, 'a': 1.0004}],
          # the same number of keys but other keys; a key that is missing on one side and holds None on the other
          {'a': None}, {'b': None}, {'b': 1, 'c': 5}, {'a': None, 'b': 1}, [{'a': None}], ({'b': None},),
          # floats inside sets: the caller's tolerance applies there as well
          {1.0}, {1.3}, {1.0004}, {1.0, 5.0}, {5.0004, 1.0004}, frozenset({1.0}), frozenset({1.3}), [{1.0}], [{1.3}], {'s': {1.0}}, {'s': {1.3}},
          # every element of the first has a partner within the tolerance in the second, but not the other way round
          {0.0, 0.0005}, {0.0004, 0.002}, frozenset({0.0, 0.0005}), frozenset({0.0004, 0.002}), [{0.0, 0.0005}], [{0.0004, 0.002}],
          {'k': {0.0, 0.0005}}, {'k': {0.0004, 0.002}},
          # bytes: text-like, but never equal to a str
          # dicts whose keys agree only under the string normalisation / the tolerance
          {'A': 1}, {1.0: 'x'}, {1.0004: 'x'}, [{'A': 1}],
          # dataclass instances: equal, different in one field, different only within the tolerance (== decides)
          Point(1, 2.0), Point(1, 3.0), Point(1, 2.0004), [Point(1, 2.0)], [Point(1, 3.0)],
          # objects of an ordinary class with a docstring and a string constant
          Dog('rex'), Dog('tom'), [Dog('rex')],
          # tuples of two elements of different types, in both orders
          (1, 'a'), ('a', 1),
          # infinities and an int beyond the range of floats
          float('inf'), float('-inf'), 10 ** 400,
          b'abc', b'ABC', b'a,b.c!', b'', [b'abc'], {'k': b'ABC'}, (b'abc', 'abc')]
# values that have no literal repr: written as the expression that builds them (dict views, ranges)
SOURCES = {}
for _src in ("{'a': 1, 'b': 2}.items()", "{'b': 2, 'a': 1}.items()", "{'a': 1, 'b': 2}.keys()", "{'a': 1, 'b': 2}.values()", "{'x': 2, 'y': 1}.values()",
             "range(3)", "range(0)"):
    SOURCES[len(VALUES)] = _src
    VALUES.append(eval(_src))
VALUES += [{('a', 1), ('b', 2)}, [('a', 1), ('b', 2)], {'a', 'b'}, [0, 1, 2]]
# pairs that are always run in BOTH argument orders (also in the quick tier)
BOTH_ORDERS = [({0.0, 0.0005}, {0.0004, 0.002}), (frozenset({0.0, 0.0005}), frozenset({0.0004, 0.002})), ([{0.0, 0.0005}], [{0.0004, 0.002}]),
               ({'k': {0.0, 0.0005}}, {'k': {0.0004, 0.002}}), ({1.0, 5.0}, {5.0004, 1.0004}), ({'a': 1.0, 'b': 2.0}, {'b': 2.0004, 'a': 1.0004})]
ERRORS = ['ValueError("boom")', 'ZeroDivisionError("z")']


