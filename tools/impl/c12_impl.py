"""C12: runs verify() on arbitrary source texts, whole-file and inside a section, next to the live parser."""
import ast
import json
import sys

from pedal.core.commands import contextualize_report
from pedal.core.report import MAIN_REPORT
from pedal.source import verify
from pedal.source.sections import separate_into_sections, next_section


def live(text):
    try:
        tree = ast.parse(text)
        return {'ok': True, 'dump': ast.dump(tree)}
    except IndentationError as e:
        return {'ok': False, 'kind': 'indent', 'lineno': e.lineno, 'offset': e.offset, 'cls': type(e).__name__}
    except SyntaxError as e:
        return {'ok': False, 'kind': 'syntax', 'lineno': e.lineno, 'offset': e.offset, 'cls': type(e).__name__}
    except (RecursionError, MemoryError) as e:
        return {'ok': False, 'kind': 'recursion', 'lineno': None, 'cls': type(e).__name__}
    except ValueError as e:
        return {'ok': False, 'kind': 'value', 'lineno': None, 'cls': type(e).__name__}


def observe(raised, ret):
    fbs = MAIN_REPORT.feedback + MAIN_REPORT.ignored_feedback
    src = MAIN_REPORT['source']
    tree = src.get('ast')
    return {'raised': raised, 'ret': ret,
            'fb': [[f.label, f.category, None if f.location is None else f.location.line] for f in fbs if f.category != 'system'],
            'success': src.get('success'), 'dump': None if tree is None else ast.dump(tree)}


def main():
    data = json.load(sys.stdin)
    out = []
    import random
    rnd = random.Random(data.get('seed', 0))
    # what precedes the section: always two newlines, sometimes with characters that str.splitlines() (but not the
    # parser) treats as line breaks
    prefixes = ['a = 1\nb = 2\n', 'a = 1  # \x0c\nb = 2\n', 'a = "\x0b"\nb = 2  # \x1c \x85\n', 'a = 1  # \u2028\nb = "\x1d\x1e"\n']
    for text in data['texts']:
        rec = {'live': live(text)}
        contextualize_report(text)
        raised, ret = None, None
        try:
            ret = verify()
        except BaseException as e:
            raised = type(e).__name__ + ': ' + str(e)[:120]
        rec['whole'] = observe(raised, ret)
        # the same text handed to verify() explicitly, under a file name that is not one of the submission's files
        contextualize_report('placeholder = 1\n')
        raised, ret = None, None
        try:
            ret = verify(text, filename='another_file.py')
        except BaseException as e:
            raised = type(e).__name__ + ': ' + str(e)[:120]
        rec['explicit'] = observe(raised, ret)
        # the same text as section 1 of a two-part file (three lines before it)
        if '##### Part' not in text:
            whole = rnd.choice(prefixes) + '##### Part 1\n' + text
            contextualize_report(whole)
            raised, ret = None, None
            try:
                separate_into_sections(independent=True)
                next_section()
                ret = verify()
            except BaseException as e:
                raised = type(e).__name__ + ': ' + str(e)[:120]
            rec['section'] = observe(raised, ret)
            rec['section_live'] = live('\n' + text)
        out.append(rec)
    json.dump(out, open(sys.argv[1], 'w'))


main()
