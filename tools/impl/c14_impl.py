"""C14: forces orderings of the grader thread and the interrupted student thread through the guarded hooks.
stdin {"cases":[{"program":src, "schedule":"A"|"B"|"C"|"N", "allowed":0.3}]}"""
import json
import sys
import threading
import time

from pedal.core.commands import contextualize_report
from pedal.core.report import MAIN_REPORT
from pedal.sandbox import commands as S
from pedal.sandbox import timeout as T


OLD_THREADS = set()   # abandoned threads of EARLIER cases (a program that swallows BaseException never dies)


ALL_CREATED = []   # every InterruptableThread ever started (threading.enumerate() forgets threads it believes stopped)
_orig_start = T.InterruptableThread.start


def _recording_start(self, *a, **k):
    ALL_CREATED.append(self)
    return _orig_start(self, *a, **k)


T.InterruptableThread.start = _recording_start


def student_threads():
    return [t for t in ALL_CREATED if t not in OLD_THREADS and running(t)]


def running(t):
    # Thread.is_alive() cannot be trusted here: an exception delivered to a thread while it sits in join() makes CPython mark
    # the JOINED thread as stopped although it still runs; the interpreter's own table of frames is the truth
    return t.ident in sys._current_frames()


def wait_dead(threads, limit=2.5):
    t0 = time.time()
    while any(running(t) for t in threads) and time.time() - t0 < limit:
        time.sleep(0.02)
    return all(not running(t) for t in threads)


def run_case(case):
    if case.get('files'):
        from pedal.core.submission import Submission
        contextualize_report(Submission(files=dict(case['files']), main_file='answer.py'))
    else:
        contextualize_report(case['program'])
    S.clear_sandbox()
    if case.get('warmup'):
        # the sandbox was used before and its history cleared (as an instructor script does between parts)
        S.run('warm = 1\nprint("warm")\n')
        S.run('print("warm again")\n')
        S.clear_sandbox()
    sb = S.get_sandbox()
    sb.allowed_time = case['allowed']
    sched = case['schedule']
    reached = {'systemexit': threading.Event(), 'terminated': threading.Event(), 'handler': threading.Event()}
    release_student = threading.Event()
    log = []
    waited = [0.0]

    def sync(point):
        log.append((point, threading.current_thread().name))
        t_in = time.time()
        try:
            _sync(point)
        finally:
            if threading.current_thread() is threading.main_thread():
                waited[0] += time.time() - t_in

    def _sync(point):
        if point == 'execute.systemexit':
            reached['systemexit'].set()
            if sched in ('B', 'C'):
                release_student.wait(6)
        elif point == 'timeout.terminated':
            reached['terminated'].set()
            if sched == 'A':
                # let the student thread run its handler to the end first
                reached['systemexit'].wait(2.0)
                wait_dead(student_threads(), 2.0)
        elif point == 'timeout.handler':
            reached['handler'].set()
    T._VERIF_SYNC = sync
    OLD_THREADS.update(ALL_CREATED)
    real_stdout = sys.stdout
    out = {'schedule': sched}
    t0 = time.time()
    escaped = None
    try:
        if case.get('in_except'):
            try:
                int('x')
            except ValueError:
                S.run(threaded=True)
        elif case.get('files'):
            # the time limit switched on for the whole sandbox (as the command line's threaded mode does): imports of other
            # student files are time-limited too
            sb.threaded = True
            S.run()
        else:
            S.run(threaded=True)
    except BaseException as e:
        escaped = type(e).__name__
    out['wall'] = round(time.time() - t0 - waited[0], 3)      # time the checker itself held the grader thread is not pedal's
    out['checker_wait'] = round(waited[0], 3)
    out['escaped'] = escaped
    exc = sb.exception
    out['exception_at_return'] = None if exc is None else type(getattr(exc, '_actual_value', exc)).__name__
    out['labels_at_return'] = [f.label for f in MAIN_REPORT.feedback if f.category == 'runtime']
    threads = student_threads()
    if sched == 'B':
        release_student.set()
        out['student_finished'] = wait_dead(threads)
    # the next execution in the same sandbox
    if sched == 'C':
        def instructor_sync():
            release_student.set()
            wait_dead(threads)
        sb.data['instructor_sync'] = instructor_sync
        nxt = 'print("next-1")\ninstructor_sync()\nprint("next-2")\n'
    else:
        nxt = 'print("next-1")\nprint("next-2")\n'
    n_ctx = len(sb._context)
    escaped2 = None
    try:
        S.run(nxt)
    except BaseException as e:
        escaped2 = type(e).__name__
    release_student.set()
    out['student_dead_at_end'] = wait_dead(threads, 1.0)
    out['next_escaped'] = escaped2
    ctxs = sb._context[n_ctx:]
    out['next_output'] = ctxs[-1].output if ctxs else None
    exc2 = sb.exception
    out['exception_after_next'] = None if exc2 is None else type(getattr(exc2, '_actual_value', exc2)).__name__
    # a result obtained afterwards must be usable: its execution record can be looked up and a runtime assertion about it passes
    try:
        from pedal.assertions.runtime import assert_equal
        S.run('def probe_fn():\n    return 41\n')
        later = S.call('probe_fn')
        rec_ctx = sb.get_context(later._actual_context_id)
        n_before = len(MAIN_REPORT.feedback)
        fired = bool(assert_equal(later, 41))            # a feedback object is true when it fired
        out['later_result'] = {'value_ok': later == 41,
                               'context_is_the_call': len(rec_ctx) == 1 and rec_ctx[0] is sb._context[-1] and 'probe_fn' in str(rec_ctx[0].code),
                               'assert_equal_passes': not fired, 'new_feedback': [f.label for f in MAIN_REPORT.feedback[n_before:]]}
    except BaseException as e:
        out['later_result'] = {'raised': type(e).__name__ + ': ' + str(e)[:120]}
    time.sleep(0.05)
    out['labels_at_end'] = [f.label for f in MAIN_REPORT.feedback if f.category == 'runtime']
    out['patch_depth'] = len(sb._current_patches)
    out['stdout_depth'] = len(sb._current_stdout)
    out['stdout_restored'] = sys.stdout is real_stdout
    out['hook_log'] = log
    out['context_ids'] = [c.id for c in sb._context] if hasattr(sb._context[0], 'id') else None
    # cleanup for the following cases
    T._VERIF_SYNC = None
    while sb._current_patches:
        sb._stop_patches()
    sb._current_stdout.clear()
    sys.stdout = real_stdout
    return out


def main():
    import os
    data = json.load(sys.stdin)
    res = []
    state = {'deadline': time.time() + 25}

    def watchdog():
        # a call that never returns is itself a violation (bounded delay): report it instead of hanging the check
        while True:
            time.sleep(0.25)
            if time.time() > state['deadline']:
                res.append({'hang': True, 'schedule': data['cases'][len(res)]['schedule']})
                json.dump(res, open(sys.argv[1], 'w'))
                os._exit(0)
    threading.Thread(target=watchdog, daemon=True).start()
    for c in data['cases']:
        state['deadline'] = time.time() + 25
        res.append(run_case(c))
    json.dump(res, open(sys.argv[1], 'w'))
    sys.stdout.flush()
    os._exit(0)   # abandoned daemon threads may still be spinning


main()
