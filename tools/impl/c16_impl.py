"""C16: every operation of the property's families on the real proxy vs the real value, with stdout captured."""
import io
import json
import math
import operator
import sys

from pedal.sandbox.result import SandboxResult as P, unwrap_value
from pedal.sandbox import result as result_module


class Money:
    """user object with dunders that decline foreign operands"""
    def __init__(self, n):
        self.n = n

    def __add__(self, other):
        if isinstance(other, Money):
            return Money(self.n + other.n)
        if isinstance(other, int):
            return Money(self.n + other)
        return NotImplemented

    __radd__ = __add__

    def __eq__(self, other):
        return isinstance(other, Money) and self.n == other.n

    def __hash__(self):
        return hash(self.n)

    def __lt__(self, other):
        if isinstance(other, Money):
            return self.n < other.n
        return NotImplemented

    def __len__(self):
        return self.n

    def __repr__(self):
        return 'Money(%d)' % self.n


class Odd:
    """user object that is not equal to itself and whose hash follows its state"""
    def __init__(self):
        self.n = 1

    def __eq__(self, other):
        return False

    def __hash__(self):
        return hash(self.n)

    def bump(self):
        self.n += 1
        return self.n

    def __repr__(self):
        return 'Odd(%d)' % self.n


class Card:
    """user object with a field literally named `value` (what the proxy calls its own payload), and a __format__ that
    differs from __str__"""
    def __init__(self, value, suit):
        self.value = value
        self.suit = suit

    def __eq__(self, other):
        return isinstance(other, Card) and (self.value, self.suit) == (other.value, other.suit)

    def __hash__(self):
        return hash((self.value, self.suit))

    def __lt__(self, other):
        if isinstance(other, Card):
            return self.value < other.value
        return NotImplemented

    def __add__(self, other):
        if isinstance(other, int):
            return Card(self.value + other, self.suit)
        return NotImplemented

    def __len__(self):
        return 2

    def __iter__(self):
        return iter((self.value, self.suit))

    def __getitem__(self, k):
        return (self.value, self.suit)[k]

    def __contains__(self, x):
        return x in (self.value, self.suit)

    def __str__(self):
        return '%s of %s' % (self.value, self.suit)

    def __repr__(self):
        return 'Card(%r, %r)' % (self.value, self.suit)

    def __format__(self, spec):
        return 'card:' + str(self) if not spec else format(str(self), spec)


class Gauge:
    """user object whose `value` is a PROPERTY with a side effect (it prints) and that fails on an empty gauge: no operation on
    the proxy may read it behind the student's back"""
    def __init__(self, readings):
        self.readings = list(readings)

    @property
    def value(self):
        print('reading the gauge')
        return self.readings[-1]

    def __len__(self):
        return len(self.readings)

    def __iter__(self):
        return iter(self.readings)

    def __eq__(self, other):
        return isinstance(other, Gauge) and self.readings == list(other.readings)

    def __hash__(self):
        return hash(tuple(self.readings))

    def __add__(self, other):
        if isinstance(other, int):
            return Gauge(self.readings + [other])
        return NotImplemented

    def __getitem__(self, k):
        return self.readings[k]

    def __repr__(self):
        return 'Gauge(%r)' % (self.readings,)


class Record:
    """user object with a catch-all __getattr__ (unknown fields read as None) and reflected operators"""
    def __init__(self, **kw):
        self.__dict__.update(kw)

    def __getattr__(self, name):
        return None

    def __eq__(self, other):
        return isinstance(other, Record) and self.__dict__ == other.__dict__

    def __hash__(self):
        return hash(tuple(sorted(self.__dict__.items())))

    def __radd__(self, other):
        return ('radd', type(other).__name__)

    def __rmul__(self, other):
        return ('rmul', type(other).__name__)

    def __rsub__(self, other):
        return ('rsub', type(other).__name__)

    def __ror__(self, other):
        return ('ror', type(other).__name__)

    def __rpow__(self, other):
        return ('rpow', type(other).__name__)

    def __repr__(self):
        return 'Record(%s)' % ', '.join('%s=%r' % kv for kv in sorted(self.__dict__.items()))


REC = Record(n=1)


class Plain:
    """user object without dunders"""
    def __repr__(self):
        return 'Plain()'


PLAIN = Plain()
VALUES = {'int': [3, 0, -2], 'float': [2.5, -1.5], 'bool': [True, False], 'str': ['ab', ''], 'list': [[1, 2], []], 'tuple': [(1, 2), ()],
          'dict': [{'a': 1}], 'set': [{1, 2}], 'none': [None], 'complex': [1 + 2j], 'money': [Money(5)], 'card': [Card(11, 'hearts')], 'gauge': [Gauge([4, 7]), Gauge([])], 'record': [REC], 'reclist': [[REC, 1]], 'dict2': [{'a': 2, 'b': 3}],
          'frozenset': [frozenset({1, 3})], 'plain': [PLAIN], 'nan': [float('nan')], 'odd': [Odd()],
          'type': [int, str]}                      # a class as a value (evaluate("int"), a class the student returns)
BINOPS = {'add': operator.add, 'sub': operator.sub, 'mul': operator.mul, 'matmul': operator.matmul, 'truediv': operator.truediv,
          'floordiv': operator.floordiv, 'mod': operator.mod, 'divmod': divmod, 'pow': pow, 'lshift': operator.lshift,
          'rshift': operator.rshift, 'and': operator.and_, 'xor': operator.xor, 'or': operator.or_,
          'eq': operator.eq, 'ne': operator.ne, 'lt': operator.lt, 'le': operator.le, 'gt': operator.gt, 'ge': operator.ge,
          'contains': lambda c, x: x in c, 'getitem': operator.getitem, 'pow3': lambda a, b: pow(a, b, 5),
          'pow3mod': lambda a, b: pow(a, 3, b),           # the modulus is an operand too
          'isinstance_of': lambda c, x: isinstance(x, c), 'issubclass_of': lambda c, x: issubclass(bool, c)}     # (only the class operand can be a proxy: arg 1 must be a real class)
UNOPS = {'neg': operator.neg, 'pos': operator.pos, 'abs': abs, 'invert': operator.invert, 'int': int, 'float': float, 'complex': complex,
         'round': round, 'round1': lambda v: round(v, 1), 'trunc': math.trunc, 'floor': math.floor, 'ceil': math.ceil, 'len': len,
         'hash': hash, 'bool': bool, 'str': str, 'repr': repr, 'format': lambda v: format(v, ''), 'fmt10': lambda v: '{:>10}'.format(v),
         'iter': lambda v: list(iter(v)), 'index': operator.index, 'module_len': lambda v: result_module.len(v),
         'isinstance_int': lambda v: isinstance(v, int), 'isinstance_float': lambda v: isinstance(v, float),
         'isinstance_str': lambda v: isinstance(v, str), 'isinstance_list': lambda v: isinstance(v, list),
         'isinstance_tuple': lambda v: isinstance(v, (tuple, dict)), 'isinstance_bool': lambda v: isinstance(v, bool),
         'isinstance_money': lambda v: isinstance(v, Money),
         'eq_self': lambda v: v == v, 'ne_self': lambda v: v != v, 'le_self': lambda v: v <= v,
         'hash_after_change': lambda v: (hash(v), unwrap_value(v.bump()), hash(v), hash(v) == hash(unwrap_value(v))),
         'sorted': lambda v: sorted(v), 'sum': lambda v: sum(v), 'max': lambda v: max(v), 'list': lambda v: list(v), 'type_name': lambda v: v.__class__.__name__}


def outcome(fn, *args):
    real_out, buf = sys.stdout, io.StringIO()
    sys.stdout = buf
    try:
        r = fn(*args)
        kind = 'ok'
    except Exception as e:
        r = type(e).__name__
        kind = 'raise'
    finally:
        sys.stdout = real_out
    return kind, r, buf.getvalue()


def same(a, b):
    a, b = unwrap_value(a), unwrap_value(b)
    if isinstance(a, tuple) and isinstance(b, tuple):
        return len(a) == len(b) and all(same(x, y) for x, y in zip(a, b))
    if isinstance(a, (float, complex)) and isinstance(b, (float, complex)) and (a != a or b != b):
        return type(a) is type(b) and repr(a) == repr(b)      # NaN inside: compare the printed form
    try:
        return type(a) is type(b) and bool(a == b)
    except Exception:
        return False


def main():
    out = []
    for opname, fn in BINOPS.items():
        for ta, vas in VALUES.items():
            for tb, vbs in VALUES.items():
                for va in vas[:2]:
                    for vb in vbs[:1] if opname not in ('pow', 'lshift', 'rshift', 'truediv', 'floordiv', 'mod', 'divmod') else vbs[:2]:
                        k0, r0, _ = outcome(fn, va, vb)
                        for place in ('left', 'right', 'both'):
                            a = P(va) if place in ('left', 'both') else va
                            b = P(vb) if place in ('right', 'both') else vb
                            k1, r1, printed = outcome(fn, a, b)
                            ok = (k0 == k1) and (same(r0, r1) if k0 == 'ok' else True)
                            notimpl = k1 == 'ok' and unwrap_value(r1) is NotImplemented
                            if not ok or printed or notimpl:
                                out.append({'op': opname, 'a': ta, 'b': tb, 'va': repr(va), 'vb': repr(vb), 'place': place,
                                            'real': [k0, repr(r0)[:60]], 'proxy': [k1, repr(r1)[:60]], 'printed': printed[:80],
                                            'notimplemented': notimpl})
    for opname, fn in UNOPS.items():
        for ta, vas in VALUES.items():
            for va in vas:
                if opname == 'hash_after_change':
                    import copy
                    k0, r0, _ = outcome(fn, copy.deepcopy(va) if ta == 'odd' else va)
                    k1, r1, printed = outcome(fn, P(copy.deepcopy(va)) if ta == 'odd' else P(va))
                    if k0 == k1 == 'ok' and r0 != r1:
                        out.append({'op': opname, 'a': ta, 'b': None, 'va': repr(va), 'vb': None, 'place': 'left',
                                    'real': [k0, repr(r0)[:60]], 'proxy': [k1, repr(r1)[:60]], 'printed': '', 'notimplemented': False})
                    continue
                k0, r0, _ = outcome(fn, va)
                k1, r1, printed = outcome(fn, P(va))
                ok = (k0 == k1) and (same(r0, r1) if k0 == 'ok' else True)
                if not ok or printed:
                    out.append({'op': opname, 'a': ta, 'b': None, 'va': repr(va), 'vb': None, 'place': 'left',
                                'real': [k0, repr(r0)[:60]], 'proxy': [k1, repr(r1)[:60]], 'printed': printed[:80], 'notimplemented': False})
    n = sum(len(v[:2]) for v in VALUES.values()) ** 2 * len(BINOPS) * 3 // 1 + sum(len(v) for v in VALUES.values()) * len(UNOPS)
    json.dump({'failures': out, 'evaluations': n, 'ops': list(BINOPS) + list(UNOPS), 'classes': list(VALUES)}, open(sys.argv[1], 'w'))


main()
