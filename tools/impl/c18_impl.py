"""C18: tifa_analysis on generated programs: never raises, completes, idempotent, lines in range; call sequences for the cache."""
import json
import sys

from pedal.core.commands import contextualize_report
from pedal.core.report import MAIN_REPORT
from pedal.tifa import tifa_analysis


def issues_of(r):
    out = []
    for label, fbs in sorted(r.issues.items()):
        for f in fbs:
            line = None if f.location is None else f.location.line
            out.append([label, str(f.fields.get('name')), line])
    return sorted(out, key=lambda x: (x[0], x[1], x[2] or 0))


def main():
    data = json.load(sys.stdin)
    progs = []
    for code in data['programs']:
        rec = {}
        contextualize_report(code)
        try:
            n0 = len(MAIN_REPORT.feedback) + len(MAIN_REPORT.ignored_feedback)
            r1 = tifa_analysis()
            n1 = len(MAIN_REPORT.feedback) + len(MAIN_REPORT.ignored_feedback)
            r2 = tifa_analysis()
            r3 = tifa_analysis(code)
            n2 = len(MAIN_REPORT.feedback) + len(MAIN_REPORT.ignored_feedback)
            rec.update({'success': bool(r1.success), 'error': None if r1.error is None else repr(r1.error)[:160],
                        'same': r2 is r1 and r3 is r1, 'added_first': n1 - n0, 'added_again': n2 - n1,
                        'issues': issues_of(r1), 'issues_again': issues_of(r2)})
        except BaseException as e:
            rec['raised'] = type(e).__name__ + ': ' + str(e)[:160]
        progs.append(rec)
    # second pass, on fresh reports, after everything else ran in this process: same issues as the first time
    for code, rec in zip(data['programs'], progs):
        if 'raised' in rec:
            continue
        contextualize_report(code)
        try:
            rec['issues_later'] = issues_of(tifa_analysis())
        except BaseException as e:
            rec['issues_later'] = 'raised ' + type(e).__name__
    # third pass: the code handed over explicitly, on a report that never had a submission
    from pedal.core.report import Report
    for code, rec in zip(data['programs'], progs):
        if 'raised' in rec:
            continue
        try:
            r = tifa_analysis(code, report=Report())
            rec['bare'] = {'success': bool(r.success), 'error': None if r.error is None else repr(r.error)[:160], 'issues': issues_of(r)}
        except BaseException as e:
            rec['bare'] = {'raised': type(e).__name__ + ': ' + str(e)[:160]}
    seqs = []
    for seq in data['sequences']:
        contextualize_report(seq['codes'][0])
        ids = {}
        obs = []
        err = None
        for c in seq['calls']:
            try:
                r = tifa_analysis(seq['codes'][c])
                lines = [x[2] for x in issues_of(r) if x[2] is not None]
                obs.append([ids.setdefault(id(r), len(ids)), len(MAIN_REPORT.feedback) + len(MAIN_REPORT.ignored_feedback),
                            max(lines) if lines else 0, issues_of(r), bool(r.success)])
            except BaseException as e:
                err = type(e).__name__ + ': ' + str(e)[:100]
                break
        # every code of the sequence analysed alone, on a freshly contextualized report
        alone = []
        for code in seq['codes']:
            try:
                contextualize_report(code)
                r = tifa_analysis()
                alone.append([issues_of(r), bool(r.success)])
            except BaseException as e:
                alone.append(['raised ' + type(e).__name__, False])
        seqs.append({'obs': obs, 'err': err, 'alone': alone})
    json.dump({'programs': progs, 'sequences': seqs}, open(sys.argv[1], 'w'))


main()
