"""C06: the same program through pedal's sandbox and as __main__ in a fresh plain interpreter."""
import json
import os
import subprocess
import sys
import tempfile

from pedal.core.commands import contextualize_report
from pedal.core.report import MAIN_REPORT
from pedal.sandbox import commands as S
from pedal.sandbox.result import unwrap_value

HERE = os.path.dirname(os.path.abspath(__file__))


def sandbox_side(src, inputs, calls, files=None, threaded=False, input_mode='set'):
    if files:
        from pedal.core.submission import Submission
        MAIN_REPORT.clear()
        allf = dict(files)
        allf['answer.py'] = src
        contextualize_report(Submission(files=allf, main_file='answer.py'))
    else:
        contextualize_report(src)
    S.clear_sandbox()
    sb = S.get_sandbox()
    if threaded:
        sb.threaded = True
        sb.allowed_time = 10
    if inputs:
        inputs = list(inputs)
        if input_mode == 'queue' and len(inputs) >= 2:
            # the same queue built by several queue_input calls
            S.queue_input(inputs[0])
            S.queue_input(*inputs[1:])
        elif input_mode == 'set+queue' and len(inputs) >= 2:
            S.set_input(inputs[:1])
            S.queue_input(*inputs[1:])
        elif input_mode == 'set-keep' and len(inputs) >= 2:
            S.set_input(inputs[:-1])
            S.set_input(inputs[-1:], clear=False)
        else:
            S.set_input(inputs)
    try:
        S.run()
    except BaseException as e:
        return {'escaped': type(e).__name__ + ': ' + str(e)[:100]}
    exc = sb.exception
    outcome = {'kind': 'normal'}
    if exc is not None:
        real = getattr(exc, '_actual_value', exc)
        line = None
        if sb.feedback is not None and sb.feedback.location is not None:
            line = sb.feedback.location.line
        outcome = {'kind': 'exception', 'cls': type(real).__name__, 'line': line}
    out = {'globals': dump(sb), 'outcome': outcome, 'calls': []}
    for call in calls:
        name, args = call[0], call[1]
        kw = {}
        if len(call) > 2 and call[2] is not None:
            kw['inputs'] = list(call[2])
        if not callable(sb.data.get(name)):
            out['calls'].append(['undefined', name])
            continue
        try:
            # an argument written @fn() is the RESULT of an earlier call(), handed on as the grader got it
            r = S.call(name, *[S.call(a[1:-2]) if a.startswith('@') else eval(a) for a in args], **kw)
            v = unwrap_value(r)
            if isinstance(v, BaseException):
                # ... and where: the line of the student's file the runtime feedback of this call points at
                where = sb.feedback.location.line if sb.feedback is not None and sb.feedback.location is not None else None
                out['calls'].append(['raise', type(v).__name__, where])
            else:
                # the value as the grader sees it: through the returned proxy
                try:
                    seen = [repr(r), str(r), format(r)]
                except BaseException as e2:
                    seen = ['proxy raised ' + type(e2).__name__]
                out['calls'].append(['ok', repr(v), seen])
        except BaseException as e:
            out['calls'].append(['escaped', type(e).__name__ + ': ' + str(e)[:80]])
    out['stdout'] = sb.raw_output
    out['globals_after'] = dump(sb)
    # the line view of the printed text: per execution, the text without trailing blank space, split at line breaks,
    # each line without trailing blank space (leading blank space is part of the line)
    want = []
    for c in sb._context:
        text = getattr(c, 'output', None)
        if text:
            want += [line.rstrip() for line in text.rstrip().split('\n')]
    out['lines'] = list(sb.output)
    out['lines_expected'] = want
    return out


def dump(sb):
    data = {}
    for k, v in sb.data.items():
        if k.startswith('__'):
            continue
        if getattr(v, '__module__', '') and str(getattr(v, '__module__', '')).startswith('pedal.'):
            continue  # pedal's documented replacements, not student-defined
        if isinstance(v, (int, float, str, bool, list, tuple, dict, set, type(None))):
            data[k] = repr(v)
        else:
            data[k] = '<%s>' % type(v).__name__
    return data


def plain_side(src, inputs, calls, files=None):
    d = tempfile.mkdtemp(dir='/var/tmp')
    sp = os.path.join(d, 'answer_src.py')
    op = os.path.join(d, 'out.json')
    open(sp, 'w', encoding='utf8').write(src)
    env = {k: v for k, v in os.environ.items() if k not in ('PYTHONPATH',)}
    for name, text in (files or {}).items():
        open(os.path.join(d, name), 'w', encoding='utf8').write(text)
    if files:
        env['PYTHONPATH'] = d
        env['PYTHONDONTWRITEBYTECODE'] = '1'
    p = subprocess.run([sys.executable, '-S', os.path.join(HERE, 'c06_plain.py'), sp, op, json.dumps(calls)],
                       input=''.join(i + '\n' for i in list(inputs) + ['0'] * 400), text=True, capture_output=True, env=env, cwd=d, timeout=60)
    try:
        res = json.load(open(op))
    except Exception:
        res = {'plain_failed': p.stderr[-300:]}
    import shutil
    shutil.rmtree(d, ignore_errors=True)
    return res


def marshalling(values):
    """real _make_temporary on each value; and the CPython fact eval(repr(v)) == v for literal reprs"""
    import ast as _ast
    from pedal.sandbox.data import SandboxVariable
    contextualize_report('x = 1\n')
    S.clear_sandbox()
    sb = S.get_sandbox()
    S.run()
    out = []
    for src in values:
        v = eval(src, {'SandboxVariable': SandboxVariable, 'inf': float('inf'), 'nan': float('nan'), 'Obj': type('Obj', (), {})})
        got = sb._make_temporary('arg', '0', v)
        how = 'ByName' if isinstance(v, SandboxVariable) else ('ByTemporary' if got.startswith('_temporary_') else 'BySource')
        try:
            back = _ast.literal_eval(repr(v))
            lit = True
            same = (back == v) or (back != back and v != v)
            try:
                same = same and (eval(repr(v)) == v or v != v)
            except Exception:
                same = False
        except Exception:
            lit, same = False, None
        out.append({'how': how, 'len': len(repr(v)), 'literal': lit, 'roundtrip': same, 'is_var': isinstance(v, SandboxVariable)})
        sb._purge_temporaries()
    return out


def namespace(names):
    """is the name bound, in the student namespace of an execution, to something else than the plain builtin?"""
    import builtins
    contextualize_report('import builtins as _b\nseen = {}\n')
    S.clear_sandbox()
    sb = S.get_sandbox()
    S.run()
    S.run('probe = dict((n, __builtins__.get(n) if isinstance(__builtins__, dict) else getattr(__builtins__, n, None)) for n in %r)\n' % names)
    probe = sb.data.get('probe', {})
    return {n: (probe.get(n) is not getattr(builtins, n, None)) for n in names}


def locations(specs):
    """ExpandedTraceback.line_number on REAL tracebacks of call chains through files of our choosing.
    spec: {'chain': [[file, line], ...] (outermost first; the last one raises), 'students': [file, ...], 'offsets': {file: n},
           'syntax': None | [file, line]}"""
    from pedal.utilities.exceptions import ExpandedTraceback
    out = []
    for sp in specs:
        fns = []
        for k, (fname, line) in enumerate(sp['chain']):
            last = k == len(sp['chain']) - 1
            body = "    raise ValueError('x')\n" if last else "    return chain[0](chain[1:])\n"
            src = '\n' * (line - 2) + 'def f(chain):\n' + body          # the call / raise sits on `line`
            ns = {}
            exec(compile(src, fname, 'exec'), ns)
            fns.append(ns['f'])
        try:
            fns[0](fns[1:])
            out.append({'error': 'did not raise'})
            continue
        except ValueError as e:
            exc, info = e, sys.exc_info()
        if sp.get('syntax'):
            exc = SyntaxError('bad', (sp['syntax'][0], sp['syntax'][1], 1, 'x = = 1'))
        import traceback as _tb
        frames = [[fr.filename, fr.lineno] for fr in _tb.extract_tb(info[2])]
        try:
            et = ExpandedTraceback(exc, info, False, [], dict(sp['offsets']), list(sp['students']), [], {f: [] for f in sp['students']})
            out.append({'line': et.line_number, 'frames': frames})
        except Exception as e2:
            out.append({'error': type(e2).__name__ + ': ' + str(e2)[:80], 'frames': frames})
    return out


def main():
    data = json.load(sys.stdin)
    if 'locations' in data:
        json.dump({'locations': locations(data['locations'])}, open(sys.argv[1], 'w'))
        return
    if 'values' in data:
        json.dump({'marshal': marshalling(data['values']), 'namespace': namespace(data['names'])}, open(sys.argv[1], 'w'))
        return
    out = []
    for p in data['programs']:
        out.append({'sandbox': sandbox_side(p['src'], p['inputs'], p.get('calls', []), p.get('files'), p.get('threaded', False), p.get('input_mode', 'set')),
                    'plain': plain_side(p['src'], p['inputs'], p.get('calls', []), p.get('files'))})
    json.dump(out, open(sys.argv[1], 'w'))


main()
