"""C13: gradings run through Bundle.run_ics_bundle (standard environment).  Each history runs in a forked child of a
parent that has only IMPORTED pedal, so every history starts from a fresh interpreter state; the baseline for a pair is
that pair alone in its own child."""
import argparse
import json
import os
import sys
import traceback

import pedal  # noqa: F401  (imports only; nothing is graded in the parent)
from pedal.core.submission import Submission
from pedal.command_line.modes import Bundle
import pedal.environments.standard  # noqa: F401
import pedal.assertions  # noqa: F401
import pedal.sandbox  # noqa: F401
import pedal.tifa  # noqa: F401
import pedal.cait  # noqa: F401
import pedal.source.sections  # noqa: F401
import pedal.resolvers  # noqa: F401


def grade(script, files, instructor_file='instructor.py'):
    sub = Submission(files=dict(files), main_file='answer.py', instructor_file=instructor_file)
    config = argparse.Namespace(threaded=False, resolver='resolve')
    b = Bundle(config, script, sub)
    b.environment = 'standard'
    b.run_ics_bundle()
    r = b.result
    res = r.resolution
    out = {'error': None if r.error is None else type(r.error).__name__ + ': ' + str(r.error)[:120], 'output': r.output}
    if res is not None:
        for k in ('label', 'title', 'message', 'correct', 'score', 'category'):
            v = getattr(res, k, None)
            out[k] = v if isinstance(v, (int, float, bool, str, type(None))) else repr(v)
    else:
        out['label'] = None
    return out


def in_child(fn):
    r, w = os.pipe()
    pid = os.fork()
    if pid == 0:
        os.close(r)
        try:
            data = fn()
        except BaseException as e:
            data = {'child_error': type(e).__name__ + ': ' + str(e)[:200], 'tb': traceback.format_exc()[-600:]}
        try:
            with os.fdopen(w, 'w') as f:
                json.dump(data, f, default=str)
        finally:
            os._exit(0)
    os.close(w)
    with os.fdopen(r) as f:
        txt = f.read()
    os.waitpid(pid, 0)
    return json.loads(txt) if txt else {'child_error': 'no output'}


def resolve(item):
    """'pedal/x/y.py:NAME' or 'pedal/x/y.py:Class.attr' -> the live object (None if not resolvable)"""
    import importlib
    path, name = item.split(':', 1)
    if name.startswith('global '):
        name = name[7:]
    mod = path[:-3].replace('/', '.')
    if mod.endswith('.__init__'):
        mod = mod[:-9]
    try:
        obj = importlib.import_module(mod)
        for part in name.split('.'):
            obj = getattr(obj, part)
        return obj
    except Exception:
        return None


def fingerprint(obj):
    import hashlib
    try:
        if isinstance(obj, dict):
            txt = repr(sorted((repr(k), repr(v)[:200]) for k, v in obj.items()))
        elif isinstance(obj, (set, frozenset)):
            txt = repr(sorted(repr(x) for x in obj))
        else:
            txt = repr(obj)
    except Exception as e:
        txt = 'unreprable:' + type(e).__name__
    return hashlib.sha1(txt.encode('utf8', 'replace')).hexdigest()


def main():
    data = json.load(sys.stdin)
    scripts, subs = data['scripts'], data['submissions']
    out = {'baselines': {}, 'histories': []}
    if data.get('inventory'):
        def churn():
            before = {i: fingerprint(resolve(i)) for i in data['inventory']}
            unresolved = [i for i in data['inventory'] if resolve(i) is None]
            for si in range(len(scripts)):
                for bi in range(0, len(subs), 2):
                    grade(scripts[si]['code'], subs[bi]['files'], scripts[si].get('file', 'instructor.py'))
            # one more grading: its clear() has run, so whatever still differs survived a clear
            grade(scripts[0]['code'], subs[0]['files'])
            after = {i: fingerprint(resolve(i)) for i in data['inventory']}
            return {'changed': [i for i in data['inventory'] if before[i] != after[i]], 'unresolved': unresolved}
        out['churn'] = in_child(churn)
    need = set()
    for h in data['histories']:
        need.add(tuple(h[-1]))
        if len(h) >= 2 and h[-1] == h[-2]:
            pass
    for (si, bi) in sorted(need):
        out['baselines']['%d:%d' % (si, bi)] = in_child(lambda: grade(scripts[si]['code'], subs[bi]['files'], scripts[si].get('file', 'instructor.py')))
    for h in data['histories']:
        def run_history():
            res = []
            for si, bi in h:
                res.append(grade(scripts[si]['code'], subs[bi]['files'], scripts[si].get('file', 'instructor.py')))
            return res
        out['histories'].append(in_child(run_history))
    json.dump(out, open(sys.argv[1], 'w'), default=str)


main()
