"""Reference side of C06: run a program as __main__ in an otherwise unmodified interpreter.
argv: source file, output json; stdin: the inputs (one per line).  No pedal import here."""
import io
import json
import sys
import traceback

src_path, out_path = sys.argv[1], sys.argv[2]
src = open(src_path, encoding='utf8').read()
calls = json.loads(sys.argv[3]) if len(sys.argv) > 3 else []
ns = {'__name__': '__main__', '__builtins__': __builtins__}
real_out = sys.stdout
buf = io.StringIO()
sys.stdout = buf
outcome = {'kind': 'normal'}
try:
    exec(compile(src, 'answer.py', 'exec'), ns)
except SystemExit as e:
    outcome = {'kind': 'exception', 'cls': 'SystemExit', 'line': None}
except BaseException as e:
    tb = traceback.extract_tb(e.__traceback__)
    lines = [f.lineno for f in tb if f.filename == 'answer.py']
    outcome = {'kind': 'exception', 'cls': type(e).__name__, 'line': lines[-1] if lines else getattr(e, 'lineno', None)}
def dump(ns):
    data = {}
    for k, v in ns.items():
        if k.startswith('__'):
            continue
        if isinstance(v, (int, float, str, bool, list, tuple, dict, set, type(None))):
            try:
                data[k] = repr(v)
            except Exception:
                data[k] = '<unreprable>'
        else:
            data[k] = '<%s>' % type(v).__name__
    return data


before = dump(ns)
results = []
for call in calls:
    name, args = call[0], call[1]
    if len(call) > 2 and call[2] is not None:
        # call(..., inputs=[...]) REPLACES what is left of the input queue (followed by pedal's default '0')
        sys.stdin = io.StringIO(''.join(i + '\n' for i in list(call[2]) + ['0'] * 400))
    if not callable(ns.get(name)):
        results.append(['undefined', name])
        continue
    try:
        _v = ns[name](*[ns[a[1:-2]]() if a.startswith('@') else eval(a) for a in args])
        results.append(['ok', repr(_v), [repr(_v), str(_v), format(_v)]])
    except BaseException as e:
        where = [f.lineno for f in traceback.extract_tb(e.__traceback__) if f.filename == 'answer.py']
        results.append(['raise', type(e).__name__, where[-1] if where else None])
sys.stdout = real_out
json.dump({'stdout': buf.getvalue(), 'globals': before, 'globals_after': dump(ns), 'outcome': outcome, 'calls': results}, open(out_path, 'w'))
