"""C07: every runtime assertion on a matrix of operand pairs, in the four wrapping combinations."""
import json
import operator
import re
import sys

from pedal.core.commands import contextualize_report
from pedal.core.report import MAIN_REPORT
from pedal.sandbox import commands as S
from pedal.sandbox.result import unwrap_value
from pedal.assertions import runtime as R
from pedal.assertions.commands import unit_test

from c07_values import VALUES, ERRORS, Point, Dog, SOURCES


def student_code():
    lines = ['from c07_values import Point, Dog\n']
    for i, v in enumerate(VALUES):
        rep = 'float("%r")' % v if isinstance(v, float) and (v != v or v in (float('inf'), float('-inf'))) else repr(v)
        rep = SOURCES.get(i, rep)
        lines.append('def give_%d():\n    return %s\n' % (i, rep))
    for j, e in enumerate(ERRORS):
        lines.append('def fail_%d():\n    raise %s\n' % (j, e))
    lines.append('def add(a, b):\n    return a + b\n')
    lines.append('def greet(name):\n    print("Hello, " + name + "!")\n    print("Welcome.")\n    return len(name)\n')
    lines.append('def quiet(name):\n    return len(name)\n')
    return '\n'.join(lines)


BIN = ['assert_equal', 'assert_not_equal', 'assert_less', 'assert_less_equal', 'assert_greater', 'assert_greater_equal', 'assert_in',
       'assert_not_in', 'assert_is', 'assert_is_not', 'assert_length_equal', 'assert_length_not_equal', 'assert_length_less',
       'assert_length_less_equal', 'assert_length_greater', 'assert_length_greater_equal', 'assert_contains_subset',
       'assert_not_contains_subset', 'assert_regex', 'assert_not_regex']
UN = ['assert_true', 'assert_false', 'assert_is_none', 'assert_is_not_none']
INST = ['assert_is_instance', 'assert_not_is_instance']
TYPES = {'int': int, 'float': float, 'bool': bool, 'str': str, 'list': list, 'tuple': tuple, 'dict': dict, 'set': set, 'None': None,
         'list[int]': list[int], 'list[str]': list[str], 'set[int]': set[int], 'dict[str,int]': dict[str, int], 'tuple[int,str]': tuple[int, str], 'tuple[str,int]': tuple[str, int], 'Dog': Dog, 'Point': Point, 'bytes': bytes,
         "'list[int]'": 'list[int]', "'tuple[int, str]'": 'tuple[int, str]', "'int'": 'int'}
CLASSES = {'int': int, 'float': float, 'str': str, 'list': list, 'bool': bool, 'dict': dict, 'tuple': tuple}


def run_assert(name, args, kwargs=None):
    MAIN_REPORT.feedback[:] = [f for f in MAIN_REPORT.feedback if f.category == 'runtime']
    MAIN_REPORT.ignored_feedback.clear()
    fn = getattr(R, name)
    try:
        fb = fn(*args, score='+10%', **(kwargs or {}))
        return {'fired': bool(fb), 'status': fb._status, 'listed': any(f is fb for f in MAIN_REPORT.feedback),
                'ignored': any(f is fb for f in MAIN_REPORT.ignored_feedback)}
    except BaseException as e:
        return {'raised': type(e).__name__ + ': ' + str(e)[:80]}


HOSTILE_CODE = '''
class BadRepr:
    def __repr__(self):
        raise RuntimeError("no repr")
class NonStrRepr:
    def __repr__(self):
        return 5
class ConcatRepr:
    def __init__(self):
        self.name = "rex"
        self.age = 3
    def __repr__(self):
        return self.name + self.age
class BadStr:
    def __str__(self):
        raise RuntimeError("no str")
class BadEq:
    def __eq__(self, other):
        raise RuntimeError("no eq")
    __hash__ = None
class BadBool:
    def __bool__(self):
        raise RuntimeError("no bool")
class BadLen:
    def __len__(self):
        raise RuntimeError("no len")
class EqualButShy:
    def __eq__(self, other):
        return True
    def __repr__(self):
        raise RuntimeError("no repr")
    __hash__ = None
KINDS = {'equal-but-no-repr': EqualButShy, 'repr': BadRepr, 'nonstr-repr': NonStrRepr, 'concat-repr': ConcatRepr, 'str': BadStr, 'eq': BadEq, 'bool': BadBool, 'len': BadLen}
def mk(n):
    return KINDS[n]()
def box(n):
    return [KINDS[n]()]
'''


def hostile():
    """values whose own __repr__ / __str__ / __eq__ / __bool__ / __len__ fail, as results of student calls: every assertion answers"""
    contextualize_report(HOSTILE_CODE)
    S.clear_sandbox()
    S.run()
    out = []
    for kind in ('equal-but-no-repr', 'repr', 'nonstr-repr', 'concat-repr', 'str', 'eq', 'bool', 'len'):
        for name in BIN + UN + INST + ['assert_type', 'assert_not_type']:
            for shape in ('alone', 'boxed', 'right'):
                v = S.call('mk' if shape != 'boxed' else 'box', kind)
                if name in UN:
                    if shape == 'right':
                        continue
                    args = [v]
                elif name in INST or name in ('assert_type', 'assert_not_type'):
                    if shape == 'right':
                        continue
                    args = [v, int]
                elif name in ('assert_regex', 'assert_not_regex'):
                    args = ['a', v]
                elif name in ('assert_in', 'assert_not_in'):
                    args = [v, [1, 2]] if shape != 'right' else [1, v]
                elif name in ('assert_contains_subset', 'assert_not_contains_subset'):
                    args = [[v], [1, 2]] if shape != 'right' else [[1], v]
                else:
                    args = [v, 5] if shape != 'right' else [5, v]
                rec = run_assert(name, args)
                rec.update({'kind': kind, 'assertion': name, 'shape': shape})
                out.append(rec)
    return out


def main():
    data = json.load(sys.stdin)
    if data.get('hostile'):
        json.dump({'hostile': hostile()}, open(sys.argv[1], 'w'))
        return
    contextualize_report(student_code())
    S.clear_sandbox()
    S.run()
    proxies = {}

    def get(i, wrapped):
        if not wrapped:
            return VALUES[i]
        return S.call('give_%d' % i)
    out = []
    for case in data['cases']:
        name, i, j, wl, wr = case['assertion'], case['left'], case['right'], case['wl'], case['wr']
        if case.get('error_side'):
            err = S.call('fail_%d' % case['error_index'])
            if name in UN:
                args = [err]
            elif case['error_side'] == 'left':
                args = [err, get(j, wr)] if j is not None else [err]
            else:
                args = [get(i, wl), err]
        elif name in UN:
            args = [get(i, wl)]
        elif name in INST:
            args = [get(i, wl), CLASSES[case['cls']]]
        elif name in ('assert_type', 'assert_not_type'):
            args = [get(i, wl), TYPES[case['cls']]]
        else:
            args = [get(i, wl), get(j, wr)]
        out.append(run_assert(name, args, case.get('kwargs')))
    # unit_test: every mix of passing / failing / erroring cases
    uts = []
    for mix in data['unit_tests']:
        MAIN_REPORT.feedback.clear()
        MAIN_REPORT.ignored_feedback.clear()
        tests = []
        use_less = 'cond_error' in mix
        for kind in mix:
            if kind == 'pass':
                tests.append(((1, 2), 5 if use_less else 3))
            elif kind == 'fail':
                tests.append(((1, 2), 2 if use_less else 4))
            elif kind == 'cond_error':
                tests.append((('a', 'b'), 10))   # 'ab' < 10 cannot be evaluated
            else:
                tests.append((('a', 2), 3))   # add('a', 2) raises TypeError
        try:
            r = unit_test('add', *tests, **({'assert_function': R.assert_less} if use_less else {}))
            groups = [f for f in MAIN_REPORT.feedback + MAIN_REPORT.ignored_feedback if f.label == 'unit_test']
            uts.append({'returned': bool(r), 'success_count': groups[-1].fields.get('success_count') if groups else None,
                        'total': groups[-1].fields.get('total_count') if groups else None})
        except BaseException as e:
            uts.append({'raised': type(e).__name__ + ': ' + str(e)[:80]})
    # output assertions: on the execution itself, and on an execution that is no longer the most recent one
    import contextlib
    import io
    OUT = ['assert_output', 'assert_not_output', 'assert_output_contains', 'assert_not_output_contains']
    RX = ['assert_output_regex', 'assert_not_output_regex']
    outs = []
    for spec in data.get('outputs', []):
        fn_name, arg, later, text, exact = spec['fn'], spec['arg'], spec['later'], spec['text'], spec['exact']
        buf = io.StringIO()
        with contextlib.redirect_stdout(buf):
            {'greet': lambda n: (print('Hello, ' + n + '!'), print('Welcome.')), 'quiet': lambda n: None}[fn_name](arg)
        rec = {'spec': spec, 'plain_output': buf.getvalue(), 'verdicts': {}}
        for name in OUT + RX:
            for mode in ('inline', 'stale', 'inblock'):
                if mode == 'inblock':
                    # inside an open command block, after another execution of the block printed something else
                    with S.CommandBlock():
                        S.call('greet', 'Zed')
                        S.call('quiet', 'q')
                        execution = S.call(fn_name, arg)
                        if name in RX:
                            rec['verdicts'][name + ':' + mode] = run_assert(name, [text, execution])
                        else:
                            rec['verdicts'][name + ':' + mode] = run_assert(name, [execution, text], {'exact_strings': exact})
                    continue
                execution = S.call(fn_name, arg)
                if mode == 'stale':
                    for other in later:
                        S.call(other[0], other[1])
                if name in RX:
                    rec['verdicts'][name + ':' + mode] = run_assert(name, [text, execution])
                else:
                    rec['verdicts'][name + ':' + mode] = run_assert(name, [execution, text], {'exact_strings': exact})
        outs.append(rec)
    # equality_test itself, on raw values, for the Coq model of it
    eqs = []
    if data.get('equality'):
        from pedal.utilities.comparisons import equality_test, _normalize_string
        for i, j, exact, delta in data['equality']:
            try:
                eqs.append(bool(equality_test(VALUES[i], VALUES[j], exact, delta)))
            except Exception as e:
                eqs.append('raise:' + type(e).__name__)
        norm_ids = {}

        def strings_of(v):
            if isinstance(v, (str, bytes)):
                yield v
            elif isinstance(v, dict):
                for k, x in v.items():
                    yield from strings_of(k)
                    yield from strings_of(x)
            elif isinstance(v, (list, tuple, set, frozenset)):
                for x in v:
                    yield from strings_of(x)
        for v in VALUES:
            for t in strings_of(v):
                try:
                    norm_ids[t if isinstance(t, str) else 'bytes:' + t.decode('latin-1')] = repr(_normalize_string(t))
                except Exception as e:
                    norm_ids[t if isinstance(t, str) else 'bytes:' + t.decode('latin-1')] = 'raise:' + type(e).__name__
    else:
        norm_ids = {}
    json.dump({'results': out, 'unit_tests': uts, 'n_values': len(VALUES), 'outputs': outs, 'equality': eqs, 'normal_forms': norm_ids,
               'reprs': [SOURCES.get(i, 'nan' if isinstance(v, float) and v != v else repr(v)) for i, v in enumerate(VALUES)]}, open(sys.argv[1], 'w'))


main()
