"""Exception zoo runner for C04/C05: sequences of sandbox executions in one report, observing process-global state
before/after each.  stdin {"cases":[{"files":{name:code}, "steps":[{"entry":..., ...}]}]}"""
import json
import os
import sys
import time

from pedal.core.commands import contextualize_report
from pedal.core.report import MAIN_REPORT
from pedal.core.submission import Submission
from pedal.sandbox import commands as S

ERR = sys.__stderr__


def globals_snapshot():
    return {'stdout': id(sys.stdout), 'sleep': id(time.sleep), 'trace': id(sys.gettrace()) if sys.gettrace() else 0,
            'modules': sorted(sys.modules.keys())}


NESTED = []


def _grader_trace(frame, event, arg):
    return None


def main():
    data = json.load(sys.stdin)
    res = []
    real_stdout, real_sleep = sys.stdout, time.sleep
    for case in data['cases']:
        if os.path.exists('/var/tmp/verif_c04_created_by_student.txt'):
            os.remove('/var/tmp/verif_c04_created_by_student.txt')
        sub = Submission(files=dict(case['files']), main_file='answer.py')
        contextualize_report(sub)
        R = MAIN_REPORT
        rkw = {}
        if case.get('own_report'):
            # the grading happens on a report of its own; the global report is somebody else's
            from pedal.core.report import Report
            R = Report()
            contextualize_report(Submission(files=dict(case['files']), main_file='answer.py'), report=R)
            rkw = {'report': R}
        grader = []
        if case.get('grader_patches'):
            # the grading script has patches of its own in force around the sandbox calls (its own capture of stdout, a fake
            # sleep, an extra module): they must be exactly as they were after every execution
            import io
            from unittest.mock import patch
            grader = [patch('sys.stdout', io.StringIO()), patch('time.sleep', lambda *a: None),
                      patch.dict('sys.modules', {'grader_private_module': json})]
            for g in grader:
                g.start()
        amb_stdout, amb_sleep = sys.stdout, time.sleep
        S.clear_sandbox(**rkw)
        sb = S.get_sandbox(**rkw)
        for name, attrs in case.get('mocks', []):
            # an instructor set-up: the student's `import <name>` gets this stand-in
            sb.mock_module(name, dict(attrs))
        if case.get('sections'):
            from pedal.source.sections import separate_into_sections
            separate_into_sections(independent=True)
        steps = []
        for st in case['steps']:
            before = globals_snapshot()
            n_fb = len(R.feedback) + len(R.ignored_feedback)
            n_main = len(MAIN_REPORT.feedback) + len(MAIN_REPORT.ignored_feedback)
            escaped = None
            ret = None
            NESTED.clear()
            if st.get('tracer'):
                sb.tracer_style = st['tracer']
            if st.get('pre_trace'):
                # the grader has a trace function of its own installed (a debugger, a coverage run of the grading script)
                sys.settrace(_grader_trace)
                before = globals_snapshot()
            t0 = time.time()
            try:
                kw = {'threaded': True} if st.get('threaded') else {}
                kw.update(rkw)
                if st.get('inputs') is not None and st['entry'] in ('run', 'runcode', 'call'):
                    kw['inputs'] = list(st['inputs'])
                if st.get('nested'):
                    # an instructor helper placed in the student namespace that itself calls into the sandbox
                    def instructor_helper(_st=st):
                        # the inner call is an execution like any other: what it borrowed is back when IT returns
                        b = globals_snapshot()
                        depth = (len(sb._current_patches), len(sb._current_stdout))
                        r = S.call(_st['nested'])
                        a = globals_snapshot()
                        NESTED.append(a['stdout'] == b['stdout'] and a['sleep'] == b['sleep'] and
                                      (len(sb._current_patches), len(sb._current_stdout)) == depth)
                        return r
                    sb.data['instructor_helper'] = instructor_helper
                if st['entry'] == 'next_section':
                    from pedal.source.sections import next_section
                    next_section()
                elif st['entry'] == 'run':
                    ret = S.run(**kw)
                elif st['entry'] == 'runafter':
                    ret = S.run(after=st['after'], **kw)
                elif st['entry'] == 'runcode':
                    ret = S.run(st['code'], **kw)
                elif st['entry'] == 'call':
                    ret = S.call(st['fn'], *st.get('args', []), **kw)
                elif st['entry'] == 'evaluate':
                    ret = S.evaluate(st['expr'], **kw)
            except BaseException as e:
                escaped = type(e).__name__
            dt = time.time() - t0
            after = globals_snapshot()
            fbs = (R.feedback + R.ignored_feedback)
            new = fbs[n_fb:]
            runtime = [f for f in new if f.category == 'runtime']
            exc = sb.exception
            steps.append({
                'escaped': escaped,
                'exception': None if exc is None else type(getattr(exc, '_actual_value', exc)).__name__,
                'exception_mro': [] if exc is None else [c.__name__ for c in type(getattr(exc, '_actual_value', exc)).__mro__],
                'runtime_labels': [f.label for f in runtime],
                'runtime_lines': [None if f.location is None else f.location.line for f in runtime],
                'runtime_names': [f.fields.get('exception_name') for f in runtime],
                'other_new': [f.label for f in new if f.category != 'runtime'],
                'stdout_restored': after['stdout'] == before['stdout'],
                'sleep_restored': after['sleep'] == before['sleep'],
                'trace_restored': after['trace'] == before['trace'],
                'modules_added': [m for m in after['modules'] if m not in before['modules']],
                'modules_removed': [m for m in before['modules'] if m not in after['modules']],
                'patch_depth': len(sb._current_patches), 'stdout_depth': len(sb._current_stdout),
                'nested_restored': list(NESTED),
                'raw_output': sb.raw_output[-200:], 'wall': round(dt, 3),
                'stray_on_main_report': 0 if R is MAIN_REPORT else len(MAIN_REPORT.feedback) + len(MAIN_REPORT.ignored_feedback) - n_main,
            })
            # do not let a leak poison the following steps' observations: restore by hand and note it
            if sys.stdout is not amb_stdout or time.sleep is not amb_sleep or sb._current_patches or sb._current_stdout:
                steps[-1]['leaked'] = True
                while sb._current_patches:
                    sb._stop_patches()
                sb._current_stdout.clear()
                sys.stdout = amb_stdout
                time.sleep = amb_sleep
            sys.settrace(None)
        for g in grader:
            try:
                g.stop()
            except Exception:
                pass
        sys.stdout, time.sleep = real_stdout, real_sleep
        sys.modules.pop('grader_private_module', None)
        res.append(steps)
    json.dump(res, open(sys.argv[1], 'w'))


main()
