"""Runs the real pedal static checks.  stdin: {"programs":[{"src":..., "queries":[...]}]}
Each query: {"kind": op|call|ast|lit|littype|import, "arg": ..., "n": int, "m": int}."""
import ast
import json
import sys

from pedal.core.commands import contextualize_report
from pedal.core.report import MAIN_REPORT
from pedal.cait.cait_api import parse_program
from pedal.cait.find_node import find_operation, find_function_calls
from pedal.assertions import static as S

LITTYPES = {'bool': bool, 'str': str, 'int': int, 'float': float, 'list': list, 'dict': dict}


def abstract(root):
    """pedal's own parsed tree -> nested json; uid = document order."""
    uid = [0]
    ids = {}

    def go(n):
        me = uid[0]
        uid[0] += 1
        ids.setdefault(id(n), me)  # operator singletons keep their first uid; never returned as uses
        name = None
        if isinstance(n, ast.Name):
            name = n.id
        elif isinstance(n, ast.Attribute):
            name = n.attr
        elif isinstance(n, ast.alias):
            name = n.name
        elif isinstance(n, ast.ImportFrom):
            name = n.module
        elif isinstance(n, (ast.FunctionDef, ast.ClassDef)):
            name = n.name
        lit = None
        if isinstance(n, ast.Constant):
            v = n.value
            if v is None:
                lit = ['none']
            elif isinstance(v, bool):
                lit = ['bool', v]
            elif isinstance(v, int):
                lit = ['int', v]
            elif isinstance(v, float):
                lit = ['float', repr(v)]
            elif isinstance(v, str):
                lit = ['str', v]
            else:
                lit = ['other']
        kids = []
        for f, val in ast.iter_fields(n):
            if isinstance(val, ast.AST):
                kids.append([f, go(val)])
            elif isinstance(val, list):
                for x in val:
                    if isinstance(x, ast.AST):
                        kids.append([f, go(x)])
        return {'k': type(n).__name__, 'u': me, 'l': getattr(n, 'lineno', 0) or 0, 'n': name, 'c': lit, 'kids': kids}
    return go(root), ids


def main():
    data = json.load(sys.stdin)
    out = []
    for prog in data['programs']:
        src = prog['src']
        contextualize_report(src)
        root = parse_program()
        tree, ids = abstract(root.astNode)
        res = []
        for q in prog['queries']:
            kind, arg, n, m = q['kind'], q['arg'], q['n'], q['m']
            r = {}
            try:
                if q.get('distract') is not None:
                    # the grader looks at other code in the same report, then comes back
                    parse_program(student_code=q['distract'])
                MAIN_REPORT.feedback.clear()
                MAIN_REPORT.ignored_feedback.clear()
                if kind == 'op':
                    uses = find_operation(arg)
                    e = S.ensure_operation(arg, at_least=n)
                    p = S.prevent_operation(arg, at_most=m)
                elif kind == 'call':
                    uses = find_function_calls(arg)
                    e = S.ensure_function_call(arg, at_least=n)
                    p = S.prevent_function_call(arg, at_most=m)
                elif kind == 'ast':
                    uses = root.find_all(arg)
                    e = S.ensure_ast(arg, at_least=n)
                    p = S.prevent_ast(arg, at_most=m)
                elif kind == 'lit':
                    val = arg[1] if arg[0] != 'float' else float(arg[1])
                    uses = None
                    e = S.ensure_literal(val, at_least=n)
                    p = S.prevent_literal(val, at_most=m)
                elif kind == 'littype':
                    uses = None
                    e = S.ensure_literal_type(LITTYPES[arg], at_least=n)
                    p = S.prevent_literal_type(LITTYPES[arg], at_most=m)
                elif kind == 'import':
                    uses = None
                    e = S.ensure_import(arg)
                    p = S.prevent_import(arg)
                r['ens'] = bool(e)
                r['prev'] = bool(p)
                r['ens_listed'] = any(f is e for f in MAIN_REPORT.feedback)
                r['prev_listed'] = any(f is p for f in MAIN_REPORT.feedback)
                r['count_field'] = None
                for key in ('use_count', 'call_count'):
                    if key in p.fields:
                        r['count_field'] = p.fields[key]
                r['uids'] = None if uses is None else [ids[id(u.astNode)] for u in uses]
                r['lines'] = None if uses is None else [getattr(u.astNode, 'lineno', 0) for u in uses]
                loc = p.location
                r['line'] = None if loc is None else loc.line
            except Exception as ex:  # noqa
                r['error'] = type(ex).__name__ + ': ' + str(ex)[:200]
            res.append(r)
        # queries about OTHER code on the same report (root= / student_code=), after the submission was verified:
        # they must see that other code, exactly as on a fresh report
        other_res = []
        if prog.get('other') is not None:
            from pedal.core.report import Report
            from pedal.source import verify
            from pedal.cait.cait_api import find_asts
            try:
                verify()
            except Exception:
                pass
            other = prog['other']
            for kind, arg in prog.get('other_queries', []):
                rec = {}
                for name in ('history', 'fresh'):
                    rep = MAIN_REPORT if name == 'history' else Report()
                    try:
                        if kind == 'ast':
                            found = find_asts(arg, student_code=other, report=rep)
                        elif kind == 'op':
                            found = find_operation(arg, root=parse_program(student_code=other, report=rep), report=rep)
                        else:
                            found = find_function_calls(arg, root=parse_program(student_code=other, report=rep), report=rep)
                        rec[name] = sorted(getattr(u.astNode, 'lineno', 0) or 0 for u in found)
                    except Exception as ex:
                        rec[name] = 'error ' + type(ex).__name__
                other_res.append(rec)
        out.append({'tree': tree, 'results': res, 'other': other_res})
    # live CPython symbol table facts
    syms = {}
    for sym in data.get('symbols', []):
        try:
            if sym in ('not', '~'):
                node = ast.parse('%s a' % sym).body[0].value
                syms[sym] = type(node.op).__name__
            else:
                node = ast.parse('a %s b' % sym).body[0].value
                if isinstance(node, ast.Compare):
                    syms[sym] = type(node.ops[0]).__name__
                else:
                    syms[sym] = type(node.op).__name__
        except SyntaxError:
            syms[sym] = None
    json.dump({'programs': out, 'symbols': syms}, open(sys.argv[1], 'w'))


main()
