"""C19: real TIFA operator typing and value typing next to live CPython."""
import ast
import json
import sys

from pedal.core.commands import contextualize_report
from pedal.tifa import tifa_analysis
from pedal.types.normalize import get_pedal_type_from_value, normalize_type
from pedal.types.new_types import is_subtype

SAMPLES = {'int': ['3', '0', '-2', '7'], 'float': ['2.5', '0.0', '-1.5'], 'str': ["'ab'", "''", "'%d'"], 'list': ['[1, 2]', '[]', "['x', 'y']", '[2.5]'],
           'tuple': ['(1, 2)', '()', '(3,)', "('a', 2.5)"]}
CORE = {int: 'int', float: 'float', str: 'str', list: 'list', tuple: 'tuple', bool: 'bool'}
SYMS = {'Add': '+', 'Sub': '-', 'Mult': '*', 'Div': '/', 'FloorDiv': '//', 'Mod': '%', 'Pow': '**', 'LShift': '<<', 'RShift': '>>',
        'BitOr': '|', 'BitXor': '^', 'BitAnd': '&', 'Lt': '<', 'LtE': '<=', 'Gt': '>', 'GtE': '>=', 'Eq': '==', 'NotEq': '!=',
        'In': 'in', 'NotIn': 'not in', 'Is': 'is', 'IsNot': 'is not'}


def live(expr_src, env):
    try:
        return ('ok', eval(expr_src, {}, dict(env)))
    except TypeError:
        return ('TypeError', None)
    except Exception as e:
        return ('other:' + type(e).__name__, None)


def analyse(code, target='r'):
    contextualize_report(code)
    r = tifa_analysis()
    inc = [[f.location.line if f.location else None] for f in r.issues.get('incompatible_types', [])]
    var = r.top_level_variables.get(target)
    t = None if var is None else var.type
    return r, bool(inc), t


def main():
    data = json.load(sys.stdin)
    out = {'cells': [], 'trees': [], 'values': []}
    for op, a, b in data['cells']:
        rec = {'op': op, 'a': a, 'b': b, 'live': [], 'results': []}
        for va in SAMPLES[a]:
            for vb in SAMPLES[b]:
                kind, val = live('x %s y' % SYMS[op], {'x': eval(va), 'y': eval(vb)})
                rec['live'].append(kind)
                if kind == 'ok':
                    rec['results'].append(CORE.get(type(val), type(val).__name__))
        code = 'a = %s\nb = %s\nr = a %s b\n' % (SAMPLES[a][0], SAMPLES[b][0], SYMS[op])
        try:
            r, inc, t = analyse(code)
            rec['tifa_success'] = bool(r.success)
            rec['incompatible'] = inc
            rec['type'] = None if t is None else type(t).__name__
            rec['type_is_type'] = t is None or hasattr(t, 'is_subtype')
            # conformance of the actual results to the inferred type, by pedal's own relation
            conf = []
            if not inc and t is not None and hasattr(t, 'is_subtype'):
                for va in SAMPLES[a]:
                    for vb in SAMPLES[b]:
                        # the type inferred for THESE operand types (first samples); containers with other element types are
                        # other operand types: they are analysed on their own below (per_sample)
                        if (a in ('list', 'tuple') and va not in (SAMPLES[a][0], SAMPLES[a][1])) or \
                                (b in ('list', 'tuple') and vb not in (SAMPLES[b][0], SAMPLES[b][1])):
                            continue
                        kind, val = live('x %s y' % SYMS[op], {'x': eval(va), 'y': eval(vb)})
                        if kind == 'ok':
                            conf.append([repr(val), bool(is_subtype(get_pedal_type_from_value(val), t))])
            rec['conformance'] = conf
            # every sample pair through the analysis as well (an empty list or tuple is typed differently from a filled one)
            per = []
            for va in SAMPLES[a]:
                for vb in SAMPLES[b]:
                    if (va, vb) == (SAMPLES[a][0], SAMPLES[b][0]):
                        continue
                    kind, val = live('x %s y' % SYMS[op], {'x': eval(va), 'y': eval(vb)})
                    try:
                        r3, inc3, t3 = analyse('a = %s\nb = %s\nr = a %s b\n' % (va, vb, SYMS[op]))
                        ok3 = None if (inc3 or kind != 'ok' or t3 is None or not hasattr(t3, 'is_subtype')) else \
                            bool(is_subtype(get_pedal_type_from_value(val), t3))
                        per.append({'a': va, 'b': vb, 'live': kind, 'incompatible': inc3, 'type': None if t3 is None else type(t3).__name__,
                                    'conforms': ok3})
                    except Exception as e:
                        per.append({'a': va, 'b': vb, 'raised': type(e).__name__ + ': ' + str(e)[:100]})
            rec['per_sample'] = per
            # the same operator through an augmented assignment:  r = A ; r OP= b
            if op in ('Add', 'Sub', 'Mult', 'Div', 'FloorDiv', 'Mod', 'Pow', 'LShift', 'RShift', 'BitOr', 'BitXor', 'BitAnd'):
                code2 = 'r = %s\nb = %s\nr %s= b\n' % (SAMPLES[a][0], SAMPLES[b][0], SYMS[op])
                r2, inc2, t2 = analyse(code2)
                rec['aug'] = {'success': bool(r2.success), 'incompatible': inc2, 'type': None if t2 is None else type(t2).__name__}
        except Exception as e:
            rec['raised'] = type(e).__name__ + ': ' + str(e)[:100]
        out['cells'].append(rec)
    for tree in data['trees']:
        rec = {'src': tree['src']}
        env = {k: eval(v) for k, v in tree['env'].items()}
        kind, val = live(tree['src'], env)
        rec['live'] = kind
        rec['result'] = None if kind != 'ok' else CORE.get(type(val), type(val).__name__)
        code = ''.join('%s = %s\n' % (k, v) for k, v in tree['env'].items()) + 'r = %s\n' % tree['src']
        try:
            r, inc, t = analyse(code)
            rec['incompatible'] = inc
            rec['type'] = None if t is None else type(t).__name__
            rec['conforms'] = None if (inc or kind != 'ok' or t is None or not hasattr(t, 'is_subtype')) else \
                bool(is_subtype(get_pedal_type_from_value(val), t))
        except Exception as e:
            rec['raised'] = type(e).__name__ + ': ' + str(e)[:100]
        out['trees'].append(rec)
    # comparison chains: a op1 b op2 c is judged like its two neighbouring comparisons
    out['chains'] = []
    for op1, a, b, op2, c in data.get('chains', []):
        head = 'a = %s\nb = %s\nc = %s\n' % (SAMPLES[a][0], SAMPLES[b][0], SAMPLES[c][0])
        rec = []
        for expr in ('a %s b' % SYMS[op1], 'b %s c' % SYMS[op2], 'a %s b %s c' % (SYMS[op1], SYMS[op2])):
            try:
                contextualize_report(head + 'r = ' + expr + '\n')
                r = tifa_analysis()
                rec.append(len(r.issues.get('incompatible_types', [])))
            except Exception as e:
                rec.append('raised ' + type(e).__name__)
        out['chains'].append(rec)
    def enc_type(t):
        """the structure of a pedal type object (class names and element types) for the Coq model"""
        name = type(t).__name__
        if name in ('ListType', 'SetType', 'FrozenSetType'):
            return [name, enc_type(t.element_type)]
        if name == 'TupleType':
            return [name, [enc_type(e) for e in t.element_types]]
        if name == 'DictType':
            return [name, [[enc_type(k), enc_type(x)] for k, x in t.element_types]]
        return [name]

    def enc_value(v):
        """the value as the model sees it: kinds only, set elements in iteration order"""
        if isinstance(v, bool):
            return ['bool']
        if isinstance(v, int):
            return ['int']
        if isinstance(v, float):
            return ['float']
        if isinstance(v, str):
            return ['str']
        if v is None:
            return ['none']
        if isinstance(v, list):
            return ['list', [enc_value(x) for x in v]]
        if isinstance(v, tuple):
            return ['tuple', [enc_value(x) for x in v]]
        if isinstance(v, set):
            return ['set', [enc_value(x) for x in v]]
        if isinstance(v, dict):
            return ['dict', [[enc_value(k), enc_value(x)] for k, x in v.items()]]
        return ['other']
    for vsrc in data['values']:
        v = eval(vsrc)
        rec = {'src': vsrc}
        try:
            # the questions of the property first, each on a type object nothing has looked into yet (an encoder walking the
            # type would use up anything that can only be traversed once)
            t = get_pedal_type_from_value(v)
            rec['reflexive'] = [bool(is_subtype(t, t)) for _ in range(3)]
            tc = get_pedal_type_from_value(v)
            norm = normalize_type(type(v)).as_type()
            rec['conforms'] = [bool(is_subtype(tc, norm)) for _ in range(2)] + [bool(is_subtype(t, norm))]
            t1, t2 = get_pedal_type_from_value(v), get_pedal_type_from_value(v)
            rec['stable'] = bool(is_subtype(t1, t2)) and bool(is_subtype(t2, t1)) and bool(is_subtype(t1, t2))
            rec['value_enc'] = enc_value(v)
            rec['type_enc'] = enc_type(get_pedal_type_from_value(v))
            rec['norm_enc'] = enc_type(normalize_type(type(v)).as_type())
            rec['type'] = str(t)[:80]
        except Exception as e:
            rec['raised'] = type(e).__name__ + ': ' + str(e)[:100]
        out['values'].append(rec)
    # is_subtype between the types of different values (for the model of the relation)
    pairs = []
    vals = [eval(x) for x in data['values'][:40]]
    types = [get_pedal_type_from_value(v) for v in vals]
    for i, a in enumerate(types):
        for j, b in enumerate(types):
            try:
                pairs.append([i, j, bool(is_subtype(get_pedal_type_from_value(vals[i]), get_pedal_type_from_value(vals[j])))])
            except Exception as e:
                pairs.append([i, j, 'raise'])
    out['subtype_pairs'] = pairs
    json.dump(out, open(sys.argv[1], 'w'))


main()
