"""C09: real TIFA issues, and the CPython ground truth (every branch-outcome vector actually executed)."""
import itertools
import json
import sys

from pedal.core.commands import contextualize_report
from pedal.tifa import tifa_analysis

LABELS = ('initialization_problem', 'possible_initialization_problem', 'read_out_of_scope', 'unused_variable')


SHARED = None


def tifa_issues_shared(code):
    """the same program analysed on ONE report that has analysed all the earlier programs (never cleared)"""
    global SHARED
    from pedal.core.report import Report
    if SHARED is None:
        SHARED = Report()
    try:
        r = tifa_analysis(code, report=SHARED)
    except BaseException as e:
        return {'raised': type(e).__name__}
    out = []
    for label in LABELS:
        for f in r.issues.get(label, []):
            out.append([label, f.fields.get('name'), None if f.location is None else f.location.line])
    return {'issues': out}


def tifa_issues(code):
    contextualize_report(code)
    r = tifa_analysis()
    out = []
    for label in LABELS:
        for f in r.issues.get(label, []):
            out.append([label, f.fields.get('name'), None if f.location is None else f.location.line])
    return {'success': bool(r.success), 'error': None if r.error is None else repr(r.error)[:100], 'issues': out}


class Recorder(dict):
    """the global namespace of the executed program (a dict subclass: LOAD_NAME and LOAD_GLOBAL both go through
    __getitem__), seeing every read and write of a variable"""
    def __init__(self, events, fakes):
        super().__init__()
        self.events = events
        self.fakes = fakes
        self.read_flag = {}

    def __getitem__(self, name):
        if name in self.fakes:
            return self.fakes[name]
        if not name.startswith('v'):
            if dict.__contains__(self, name):
                return dict.__getitem__(self, name)       # a function of the program, looked up from inside a function
            raise KeyError(name)
        line = sys._getframe(1).f_lineno
        if dict.__contains__(self, name):
            self.events.append((line, name, True))
            self.read_flag[name] = True
            return dict.__getitem__(self, name)
        self.events.append((line, name, False))
        self.read_flag[name] = True
        return 0

    def __setitem__(self, name, value):
        if name.startswith('v'):
            self.read_flag[name] = False
        dict.__setitem__(self, name, value)


def ground_truth(code, n_choices, max_iter, limit=6):
    """all choice vectors; per read site (line, name): assigned? over the executions reaching it; per variable: the
    read-after-last-assignment flag at the end of each execution (None = never touched on that execution)"""
    if n_choices > limit:
        return None
    compiled = compile(code, 'answer.py', 'exec')
    sites = {}
    finals = {}
    vectors = list(itertools.product(range(max_iter + 1), repeat=n_choices))
    used = 0
    for vec in vectors:
        events = []
        it = iter(vec)
        state = {'exhausted': False}

        def fake_input(*a):
            try:
                return next(it)
            except StopIteration:
                state['exhausted'] = True
                return 0
        rec = Recorder(events, {'input': fake_input, 'print': lambda *a, **k: None})
        try:
            exec(compiled, rec)
        except Exception as e:
            return {'error': type(e).__name__ + ': ' + str(e)[:80]}
        if state['exhausted']:
            continue
        used += 1
        per_path = {}
        for line, name, ok in events:
            per_path.setdefault((line, name), []).append(ok)
        for k, oks in per_path.items():
            sites.setdefault('%d:%s' % k, []).append(all(oks))
        for name in set(rec.read_flag) | set(finals):
            finals.setdefault(name, [None] * (used - 1))
        for name in finals:
            finals[name].append(rec.read_flag.get(name))
    return {'sites': sites, 'finals': finals, 'n_paths': used}


def main():
    data = json.load(sys.stdin)
    out = []
    for p in data['programs']:
        rec = {'tifa': tifa_issues(p['code']), 'shared': tifa_issues_shared(p['code'])}
        if p.get('truth'):
            rec['truth'] = ground_truth(p['code'], p['n_choices'], p.get('max_iter', 1), p.get('limit', 6))
        out.append(rec)
    json.dump(out, open(sys.argv[1], 'w'))


main()
