"""C10/C11: the real CAIT matcher on (pattern, program) pairs / call sequences.
For each case: the pattern and student CaitNode trees (as the matcher sees them), the matches in canonical form,
and the verdict of an embedding oracle that works on the real AstMap objects.

input : {"cases": [{"program": str, "patterns": [str, ...]}]}   (the patterns of one case run in sequence against
        the same cached student tree, like an instructor script does)
output: [{"student": tree, "runs": [{"pattern": tree, "matches": [...], "oracle": [...], "crash": str|None}]}]
tree  : [id, kind, field, [[fname, shape], ...], [kids]]    shape: null | ["1", pv] | ["L", [pv...]]
pv    : "N" (node) | "O" (opaque) | ["i", int] | ["b", bool] | ["s", str] | ["f", hex] | ["n"]
"""
import ast
import json
import re
import sys

from pedal.core.commands import contextualize_report
from pedal.core.report import MAIN_REPORT
from pedal.cait.cait_api import find_matches, parse_program
from pedal.cait.cait_node import CaitNode

VAR = re.compile('^_[^_].*_$')
EXP = re.compile('^__.*__$')
WILD = re.compile('^___$')


def classify(name):
    if VAR.match(name):
        return 'var'
    if EXP.match(name):
        return 'exp'
    if WILD.match(name):
        return 'wild'
    return 'plain'


def enc_pv(v):
    if isinstance(v, ast.AST):
        return 'N'
    if isinstance(v, bool):
        return ['b', v]
    if isinstance(v, int):
        return ['i', str(v)]
    if isinstance(v, float):
        return ['f', (0.0).hex() if v == 0 else v.hex()]
    if isinstance(v, str):
        return ['s', v]
    if v is None:
        return ['n']
    if isinstance(v, (bytes, complex)) or v is Ellipsis:
        return ['o', type(v).__name__, repr(v)]
    return 'O'


def root_of(node):
    while node.parent is not None:
        node = node.parent
    return node


def index_map(root):
    return {id(n): k for k, n in enumerate(root.linear_tree)}


def enc_tree(node, idx):
    flds = []
    for name, value in ast.iter_fields(node.astNode):
        if value is None:
            flds.append([name, None])
        elif isinstance(value, list):
            flds.append([name, ['L', [enc_pv(v) for v in value]]])
        else:
            flds.append([name, ['1', enc_pv(value)]])
    return [idx[id(node)], type(node.astNode).__name__, node.field, flds, [enc_tree(c, idx) for c in node.children]]


# ------------------------------------------------------------------ the embedding oracle (C10), on real objects
def prims_of(astnode, skip):
    out = []
    for name, value in ast.iter_fields(astnode):
        if name in skip:
            continue
        vals = value if isinstance(value, list) else [value]
        out.append((name, [(type(v).__name__, v) if not isinstance(v, ast.AST) else ('AST', None) for v in vals]))
    return out


def is_hole_expr(n):
    if type(n.astNode).__name__ != 'Expr' or not n.children:
        return False
    v = n.children[0].astNode
    return isinstance(v, ast.Name) and classify(v.id) in ('exp', 'wild') and not VAR.match(v.id)


def placeholder_kind(n):
    """how the pattern node n is to be read: 'wild' / 'exp' (binds a subtree), 'var' (binds an identifier),
    'any-statement' (pass), or None (concrete)"""
    a = n.astNode
    t = type(a).__name__
    if t == 'Name':
        c = classify(a.id)
        return None if c == 'plain' else c
    if t == 'Pass':
        return 'any-statement'
    return None


def explore_root(pattern_root):
    n = pattern_root
    while len(n.children) == 1 and type(n.astNode).__name__ in ('Expr', 'Module'):
        n = n.children[0]
    return n


def below(n, root):
    while n is not None:
        if n is root:
            return True
        n = n.parent
    return False


def oracle(pattern_root, student_root, m):
    """list of (key, text) problems of one AstMap as a witness of an embedding"""
    problems = []
    er = explore_root(pattern_root)
    maps = m.mappings
    # every pattern node from the explored root down is paired, except below a placeholder / statement hole and
    # the ctx of names
    def walk(n, under_flex):
        if n not in maps:
            problems.append(('unpaired', 'pattern node %s (line %s) has no partner' % (type(n.astNode).__name__, getattr(n.astNode, 'lineno', '?'))))
            return
        s = maps[n]
        if not below(s, student_root):
            problems.append(('foreign', 'partner of %s is not a node of the student tree' % type(n.astNode).__name__))
            return
        t = type(n.astNode).__name__
        ph = placeholder_kind(n)
        if is_hole_expr(n):
            return
        if ph in ('wild', 'exp', 'any-statement'):
            return
        ts = type(s.astNode).__name__
        if t == 'Module':
            pass
        elif t != ts:
            if t == 'Expr':
                problems.append(('expr-statement-paired-with-other-statement', 'pattern statement `%s` is paired with a %s' % (ast.unparse(n.astNode)[:40], ts)))
            else:
                problems.append(('kind', 'pattern %s paired with student %s' % (t, ts)))
                return
        else:
            skip = {'ctx'}
            name_field = {'Name': 'id', 'Attribute': 'attr', 'arg': 'arg', 'FunctionDef': 'name', 'ClassDef': 'name'}.get(t)
            if name_field is not None:
                nm = getattr(n.astNode, name_field)
                c = classify(nm)
                if c == 'var' or (c == 'wild' and t != 'Name'):
                    skip.add(name_field)
            a, b = prims_of(n.astNode, skip), prims_of(s.astNode, skip)
            for (fa, va), (fb, vb) in zip(a, b):
                if fa != fb:
                    problems.append(('content', 'field %s vs %s' % (fa, fb)))
                    break
                if va == [('NoneType', None)]:
                    if t == 'Constant' and fa == 'value' and vb != va:
                        problems.append(('content', 'literal None paired with %r' % (vb,)))
                    continue  # an absent optional field of the pattern asks for nothing
                plain_a = [x for x in va if x[0] != 'AST']
                if plain_a and len(plain_a) == len(va) and len(va) != len(vb):
                    problems.append(('content', '%s.%s: %r vs %r' % (t, fa, [x[1] for x in va], [x[1] for x in vb])))
                    continue
                for x, y in zip(va, vb):
                    if x[0] in ('AST',):
                        continue
                    if x != y:
                        problems.append(('content', '%s.%s: %r vs %r' % (t, fa, x[1], y[1])))
        flex = t == 'BinOp' and type(n.astNode.op).__name__ in ('Add', 'Mult')
        last = -1
        for c in n.children:
            if t == 'Name' and c.field == 'ctx':
                continue
            if c not in maps:
                problems.append(('unpaired', 'pattern node %s (line %s) has no partner' % (type(c.astNode).__name__, getattr(c.astNode, 'lineno', '?'))))
                continue
            sc = maps[c]
            if sc.parent is not s:
                problems.append(('not-a-direct-child', 'partner of %s is not a direct child of the partner of its parent' % type(c.astNode).__name__))
            else:
                pos = [k for k, x in enumerate(s.children) if x is sc][0]
                if not flex:
                    if pos <= last:
                        problems.append(('order', 'children of %s are paired out of order (%d after %d)' % (t, pos, last)))
                    last = pos
            walk(c, under_flex or flex)
    walk(er, False)
    # placeholders bound consistently
    bound = {}
    for table_name in ('symbol_table', 'func_table', 'class_table'):
        for key, values in getattr(m, table_name).items():
            ids = sorted(set(v.id for v in values))
            if len(ids) > 1:
                problems.append(('inconsistent-binding', '%s bound to %s' % (key, ids)))
            bound.setdefault(key, set()).update(ids)
    for key, ids in bound.items():
        if len(ids) > 1 and ('inconsistent-binding', ) not in [p[:1] for p in problems]:
            problems.append(('placeholder-bound-in-two-tables', '%s bound to %s (variable table vs function table)' % (key, sorted(ids))))
    # each _v_ occurrence is paired with a node carrying the bound identifier
    for n in er.linear_tree if er is pattern_root else iter_nodes(er):
        a = n.astNode
        if isinstance(a, ast.Name) and classify(a.id) == 'var' and n in maps:
            s = maps[n]
            if not isinstance(s.astNode, ast.Name):
                problems.append(('kind', '_var_ placeholder paired with %s' % type(s.astNode).__name__))
            elif a.id in bound and s.astNode.id not in bound[a.id]:
                problems.append(('inconsistent-binding', '%s occurrence paired with %s, bound to %s' % (a.id, s.astNode.id, sorted(bound[a.id]))))
        if isinstance(a, ast.Name) and classify(a.id) == 'exp' and n in maps:
            pass
    # every __expr__ is bound to the subtree standing at (one of) its positions
    occ = {}
    for n in iter_nodes(er):
        a = n.astNode
        if isinstance(a, ast.Name) and classify(a.id) == 'exp':
            holder = n
            if n.parent is not None and is_hole_expr(n.parent) and below(n.parent, er) and n.parent in maps:
                holder = n.parent
            if holder in maps:
                occ.setdefault(a.id, []).append(maps[holder])
    for key, node in m.exp_table.items():
        if key not in occ or not any(node is x for x in occ[key]):
            problems.append(('expr-binding', '%s bound to a subtree that stands at none of its positions' % key))
    for key in occ:
        if key not in m.exp_table:
            problems.append(('expr-binding', '%s is not bound' % key))
    return problems


def iter_nodes(n):
    yield n
    for c in n.children:
        yield from iter_nodes(c)


def canon(m, pidx, sidx):
    pairs = sorted([pidx.get(id(k), -1), sidx.get(id(v), -1)] for k, v in m.mappings.items())
    syms = []
    for t, table_name in (('TVar', 'symbol_table'), ('TFunc', 'func_table'), ('TClass', 'class_table')):
        for key, values in getattr(m, table_name).items():
            for v in values:
                syms.append([t, str(key), str(v.id)])
    exps = sorted([k, sidx.get(id(v), -1)] for k, v in m.exp_table.items())
    return {'pairs': pairs, 'syms': sorted(map(list, set(map(tuple, syms)))), 'exps': exps}


def bindings(m):
    out = {}
    for table_name in ('symbol_table', 'func_table', 'class_table'):
        for key, values in getattr(m, table_name).items():
            out.setdefault(key, set()).update(v.id for v in values)
    exps = {}
    for k, v in m.exp_table.items():
        try:
            exps[k] = ast.unparse(v.astNode)
        except Exception:
            exps[k] = '?'
    return {'names': {k: sorted(v) for k, v in out.items()}, 'exps': exps}


def main():
    data = json.load(sys.stdin)
    out = []
    import pedal.cait.stretchy_tree_matching as stm
    import time as _time
    for case in data['cases']:
        _t0 = _time.time()
        MAIN_REPORT.clear()
        contextualize_report(case['program'])
        rec = {'runs': []}
        try:
            student = parse_program()
            sidx = index_map(student)
            rec['student'] = enc_tree(student, sidx)
            rec['fields_before'] = [n.field for n in student.linear_tree]
        except Exception as e:
            rec['student_crash'] = type(e).__name__ + ': ' + str(e)[:100]
            out.append(rec)
            continue
        for pattern in case['patterns']:
            run = {'crash': None, 'matches': [], 'oracle': [], 'bindings': []}
            captured = {}
            orig = stm.StretchyTreeMatcher.__init__

            def init(self, *a, _orig=orig, _cap=captured, **k):
                _orig(self, *a, **k)
                _cap['root'] = self.root_node
            stm.StretchyTreeMatcher.__init__ = init
            try:
                ms = find_matches(pattern)
                proot = captured['root']
                pidx = index_map(proot)
                run['pattern'] = enc_tree(proot, pidx)
                for m in ms:
                    run['matches'].append(canon(m, pidx, sidx))
                    run['bindings'].append(bindings(m))
                    run['oracle'].append([list(p) for p in oracle(proot, student, m)])
            except Exception as e:
                import traceback
                run['crash'] = type(e).__name__ + ': ' + str(e)[:150] + ' @ ' + ' <- '.join('%s:%d' % (f.name, f.lineno) for f in traceback.extract_tb(e.__traceback__)[-3:])
            finally:
                stm.StretchyTreeMatcher.__init__ = orig
            rec['runs'].append(run)
            # an instructor script searches inside nodes it got from earlier matches (CaitNode.find_matches); these
            # sub-searches are part of the history - their results are not compared, the later top-level ones are
            for k in case.get('perturb', {}).get(str(len(rec['runs']) - 1), []):
                node = student.linear_tree[k % len(student.linear_tree)]
                for sub in ('zzq_nothing(1)', '___'):
                    try:
                        node.find_matches(sub, use_previous=False)
                    except Exception:
                        pass
        rec['fields_after'] = [n.field for n in student.linear_tree]
        # searches in explicitly given programs (find_matches(pattern, student_code=...)) on the SAME report, after
        # the submission was verified; each compared with the same search on a fresh report
        rec['explicit'] = []
        if case.get('explicit'):
            from pedal.core.report import Report
            from pedal.source import verify
            try:
                verify()
            except Exception:
                pass
            for code, pattern in case['explicit']:
                one = {}
                for name, kwargs in (('history', {}), ('fresh', {'report': Report()})):
                    try:
                        ms = find_matches(pattern, student_code=code, **kwargs)
                        one[name] = {'n': len(ms), 'bindings': [bindings(m) for m in ms]}
                    except Exception as e:
                        one[name] = {'crash': type(e).__name__ + ': ' + str(e)[:120]}
                rec['explicit'].append(one)
            # ... and back to the submission itself: the first pattern again (in between the Source tool was asked about another text)
            if case['patterns']:
                try:
                    verify('print("a text that is not the submission")\n')
                except Exception:
                    pass
                try:
                    ms = find_matches(case['patterns'][0])
                    rec['rerun'] = {'n': len(ms), 'bindings': [bindings(m) for m in ms]}
                except Exception as e:
                    rec['rerun'] = {'crash': type(e).__name__ + ': ' + str(e)[:120]}
        # searches that CONTINUE from an earlier match: below the node a placeholder was bound to (CaitNode.find_matches) and
        # through find_matches(..., use_previous=match); on a report of their own
        rec['continued'] = []
        for cont in case.get('cont', []):
            from pedal.core.report import Report
            one = {'first': False}
            try:
                rep = Report()
                exp = cont['outer_exp']
                first = None
                for m in find_matches(cont['outer'], student_code=case['program'], report=rep):
                    b = bindings(m)
                    if all(b['names'].get(ph) == [orig] for ph, orig in exp['names'].items() if ph in cont['outer']) and \
                            all(b['exps'].get(ph) == src for ph, src in exp['exps'].items()):
                        first = m
                        break
                if first is not None:
                    one['first'] = True
                    bound = first[cont['ph']]
                    for route, fn in (('below', lambda: bound.find_matches(cont['inner'])),
                                      ('below-again', lambda: bound.find_matches(cont['inner'])),
                                      ('use_previous', lambda: find_matches(cont['inner'], student_code=case['program'], report=rep,
                                                                            use_previous=first))):
                        try:
                            one[route] = {'bindings': [bindings(m) for m in fn()]}
                        except Exception as e:
                            one[route] = {'crash': type(e).__name__ + ': ' + str(e)[:120]}
                # every match of the outer pattern, in turn: continue below what IT bound the placeholder to, with the expression
                # itself as pattern in which an identifier is replaced by the placeholder THIS match binds to it
                per = []
                for mi, m in enumerate(find_matches(cont['outer'], student_code=case['program'], report=rep)[:4]):
                    try:
                        node = m[cont['ph']]
                    except KeyError:
                        continue
                    if getattr(node, 'astNode', None) is None or not isinstance(node.astNode, ast.expr) \
                            or not isinstance(getattr(node.astNode, 'ctx', ast.Load()), ast.Load):
                        continue
                    src = ast.unparse(node.astNode)
                    for nph, values in m.symbol_table.items():
                        idents = sorted({v.id for v in values})
                        if len(idents) != 1:
                            continue
                        # the placeholder written where ANOTHER identifier stands: no returned map may bind it to that one (too)
                        tree = ast.parse(src, mode='eval')
                        others = sorted({n.id for n in ast.walk(tree) if isinstance(n, ast.Name) and n.id != idents[0]
                                         and isinstance(n.ctx, ast.Load)})
                        if others:
                            for n in ast.walk(tree):
                                if isinstance(n, ast.Name) and n.id == others[0]:
                                    n.id = nph
                            inner = ast.unparse(tree) + '\n'
                            try:
                                got = [bindings(r)['names'].get(nph) for r in node.find_matches(inner)]
                            except Exception as e:
                                got = 'crash: ' + type(e).__name__ + ': ' + str(e)[:100]
                            per.append({'match': mi, 'inner': inner, 'placeholder': nph, 'identifier': idents[0], 'got': got, 'conflict': others[0]})
                        tree = ast.parse(src, mode='eval')
                        hits = [n for n in ast.walk(tree) if isinstance(n, ast.Name) and n.id == idents[0]]
                        if not hits or isinstance(tree.body, ast.Name):
                            continue
                        for n in hits:
                            n.id = nph
                        inner = ast.unparse(tree) + '\n'
                        try:
                            got = [bindings(r)['names'].get(nph) for r in node.find_matches(inner)]
                        except Exception as e:
                            got = 'crash: ' + type(e).__name__ + ': ' + str(e)[:100]
                        per.append({'match': mi, 'inner': inner, 'placeholder': nph, 'identifier': idents[0], 'got': got})
                one['per_match'] = per
            except Exception as e:
                one['crash'] = type(e).__name__ + ': ' + str(e)[:120]
            rec['continued'].append(one)
        # the same submission on a report of its own (the global report holds another program): the submission searched is that
        # report's
        if case['patterns']:
            from pedal.core.report import Report as _Report
            from pedal.core.commands import contextualize_report as _ctx
            own = _Report()
            _ctx(case['program'], report=own)
            _ctx('zz_other_submission = 1\n')          # the global report moves on to another submission
            try:
                ms = find_matches(case['patterns'][0], report=own)
                rec['own_report'] = {'n': len(ms), 'bindings': [bindings(m) for m in ms]}
            except Exception as e:
                rec['own_report'] = {'crash': type(e).__name__ + ': ' + str(e)[:120]}
        # the submission contextualised afresh, the Source tool asked about ANOTHER text, then the first search of the submission
        if case['patterns']:
            from pedal.source import verify as _verify
            _ctx(case['program'])
            try:
                _verify('print("a text that is not the submission")\n')
            except Exception:
                pass
            try:
                ms = find_matches(case['patterns'][0])
                rec['after_foreign_verify'] = {'n': len(ms), 'bindings': [bindings(m) for m in ms]}
            except Exception as e:
                rec['after_foreign_verify'] = {'crash': type(e).__name__ + ': ' + str(e)[:120]}
        rec['seconds'] = round(_time.time() - _t0, 2)
        out.append(rec)
    json.dump(out, open(sys.argv[1], 'w'))


main()
