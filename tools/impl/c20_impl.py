"""C20 implementation runner: feedback creation outcomes, field-format dispatch, override/clear histories."""
import json
import sys

from pedal.core.report import MAIN_REPORT, Report
from pedal.core.feedback import Feedback
from pedal.core.formatting import Formatter, wrap_fields
from pedal.core.commands import clear_report, contextualize_report

TRUTHY = {'True': True, '1': 1, 'str': 'x', 'list': [1]}
FALSY = {'False': False, '0': 0, 'None': None, 'empty': '', 'emptylist': []}
LAST = {}


def make_class(base, spec):
    attrs = {}
    if spec['msg'] == 'template_ok':
        attrs['message_template'] = 'T:{x:name}'
    elif spec['msg'] == 'template_raises':
        attrs['message_template'] = 'T:{missing_field}'
    if spec['else'] == 'template_ok':
        attrs['else_message_template'] = 'E:{x:name}'
    elif spec['else'] == 'template_raises':
        attrs['else_message_template'] = 'E:{missing_field}'
    if spec['just_raises']:
        attrs['justification_template'] = 'J:{missing_field}'

    def condition(self, *a, **k):
        LAST['obj'] = self
        c = spec['cond']
        if c == 'raises':
            raise RuntimeError('condition failed')
        return TRUTHY[c] if c in TRUTHY else FALSY[c]
    if spec['cond'] == 'default':
        # no condition of its own: the outcome is the `activate` keyword (delegating keeps the object observable)
        def condition(self, *a, **k):
            LAST['obj'] = self
            return base.condition(self, *a, **k)
    attrs['condition'] = condition
    return type('gen_fb', (base,), attrs)


def creation(spec):
    MAIN_REPORT.full_clear()
    other = Report()

    class Marked(Formatter):
        def name(self, name):
            return '<<%s>>' % name
    other.set_formatter(Marked(other))
    rep = {'main': MAIN_REPORT, 'none': None, 'other': other}[spec['report']]
    cls = make_class(Feedback, spec)
    kw = {'report': rep, 'x': 'val'}
    if spec['msg'] == 'explicit':
        kw['message'] = 'explicit message'
    if spec['else'] == 'explicit':
        kw['else_message'] = 'explicit else'
    if spec['delay']:
        kw['delay_condition'] = True
    if spec.get('activate') is not None:
        kw['activate'] = spec['activate']
    LAST.clear()
    raised = None
    obj = None
    try:
        obj = cls(**kw)
    except Exception as e:
        raised = type(e).__name__
        obj = LAST.get('obj')
    out = {'raised': raised}
    if obj is None:
        out['lost'] = True
        return out

    def snap(tag):
        reps = [r for r in (MAIN_REPORT, other)]
        out[tag] = {'status': obj._status, 'bool': bool(obj),
                    'active': sum(1 for r in reps for f in r.feedback if f is obj),
                    'ignored': sum(1 for r in reps for f in r.ignored_feedback if f is obj),
                    'wrong_report': sum(1 for r in reps if r is not rep for f in r.feedback + r.ignored_feedback if f is obj),
                    'message': obj.message}
    snap('after_init')
    if spec['delay']:
        raised2 = None
        try:
            obj._handle_condition()
        except Exception as e:
            raised2 = type(e).__name__
        out['raised_on_handle'] = raised2
        snap('after_handle')
    return out


class RecStr(str):
    def __format__(self, spec):
        LAST['residual'] = spec
        return str.__format__(self, spec)


def make_recording_formatter():
    class Rec(Formatter):
        pass
    for name in Formatter.available:
        def mk(name):
            def f(self, value, *a):
                LAST['used'] = name
                LAST['arg_type'] = type(value).__name__
                LAST['arg_repr'] = repr(value)[:60]
                return RecStr('[%s|%s]' % (name, value))
            return f
        setattr(Rec, name, mk(name))
    return Rec()


def formatting(specs):
    res = []
    fmt = make_recording_formatter()
    for sp in specs:
        LAST.clear()
        fields = wrap_fields(fmt, {'x': 'v'})
        try:
            text = ('{x:%s}' % sp).format(**fields) if sp else '{x}'.format(**fields)
            res.append({'text': text, 'used': LAST.get('used'), 'residual': LAST.get('residual')})
        except Exception as e:
            res.append({'raise': type(e).__name__, 'used': LAST.get('used'), 'residual': LAST.get('residual')})
    return res


def parents():
    """a parent given by name or number (a group that is referred to, not held): creation behaves as without parent"""
    out = []
    for cond in list(TRUTHY) + list(FALSY) + ['raises']:
        for parent in ('group-name', 7):
            MAIN_REPORT.full_clear()
            spec = {'msg': 'template_ok', 'else': 'none', 'just_raises': False, 'cond': cond}
            cls = make_class(Feedback, spec)
            LAST.clear()
            rec = {'cond': cond, 'parent': repr(parent), 'raised': None}
            try:
                cls(x='val', parent=parent)
            except Exception as e:
                rec['raised'] = type(e).__name__ + ': ' + str(e)[:80]
            obj = LAST.get('obj')
            rec['in_triggered'] = sum(1 for f in MAIN_REPORT.feedback if f is obj)
            rec['in_untriggered'] = sum(1 for f in MAIN_REPORT.ignored_feedback if f is obj)
            out.append(rec)
    return out


def formatting_typed():
    """a declared format hands the FIELD ITSELF (not its string) to the formatter method"""
    class Loc:
        line = 5

        def __repr__(self):
            return 'Loc(5)'
    fmt = make_recording_formatter()
    raw = {'n': 7, 'ratio': 2.5, 'pair': [3, 'q'], 'table': {'k': 1}, 'loc': Loc(), 'flag': True, 'none': None, 's': 'text'}
    out = []
    for template, want_type, want_repr in (('{n:line}', 'int', '7'), ('{ratio:python_value}', 'float', '2.5'), ('{pair:python_value}', 'list', "[3, 'q']"),
                                           ('{pair[0]:line}', 'int', '3'), ('{pair[1]:name}', 'str', "'q'"), ('{table:python_value}', 'dict', "{'k': 1}"),
                                           ('{loc.line:line}', 'int', '5'), ('{loc:python_value}', 'Loc', 'Loc(5)'), ('{flag:python_value}', 'bool', 'True'),
                                           ('{none:python_value}', 'NoneType', 'None'), ('{s:name}', 'str', "'text'"), ('{n:>6:line}', 'int', '7')):
        LAST.clear()
        rec = {'template': template, 'want_type': want_type, 'want_repr': want_repr}
        try:
            rec['text'] = template.format(**wrap_fields(fmt, dict(raw)))
        except Exception as e:
            rec['raise'] = type(e).__name__ + ': ' + str(e)[:80]
        rec['arg_type'] = LAST.get('arg_type')
        rec['arg_repr'] = LAST.get('arg_repr')
        out.append(rec)
    return out


def formatting_instances():
    """every feedback is rendered through the formatter of ITS OWN report, as that report holds it at that moment: two reports with
    two differently configured instances of one formatter class, and one report whose formatter is replaced"""
    from pedal.core.report import Report

    class Tagged(Formatter):
        def __init__(self, tag, report=None):
            super().__init__(report)
            self.tag = tag

        def name(self, x):
            return '<%s:name:%s>' % (self.tag, x)

        def python_value(self, x):
            return '<%s:value:%s>' % (self.tag, x)

    class tagfb(Feedback):
        message_template = 'N {x:name} V {x:python_value} W {x:>6:name}'
    out = []
    r1, r2 = Report(), Report()
    r1.set_formatter(Tagged('one', r1))
    r2.set_formatter(Tagged('two', r2))
    for step, (rep, tag) in enumerate([(r1, 'one'), (r2, 'two'), (r1, 'one'), (r2, 'two')]):
        f = tagfb(x='v%d' % step, report=rep)
        out.append({'step': 'two-reports:%d' % step, 'tag': tag, 'message': f.message})
    r1.set_formatter(Tagged('three', r1))
    f = tagfb(x='late', report=r1)
    out.append({'step': 'formatter-replaced', 'tag': 'three', 'message': f.message})
    MAIN_REPORT.full_clear()
    MAIN_REPORT.set_formatter(Tagged('main', MAIN_REPORT))
    f = tagfb(x='m')
    out.append({'step': 'main-report', 'tag': 'main', 'message': f.message})
    MAIN_REPORT.set_formatter(Formatter(MAIN_REPORT))
    MAIN_REPORT.full_clear()
    return out


FIELDS = ['title', 'message_template', 'priority', 'muted']


def overrides(case):
    MAIN_REPORT.full_clear()

    class A(Feedback):
        title = 'A-title'
        message_template = 'A-tmpl'

    class B(A):
        title = 'B-title'

    class C(B):
        priority = 'low'

    class D(A):
        muted = True
    # two different classes may carry one name (the same feedback name defined in two instructor modules)
    D.__name__ = B.__name__
    D.__qualname__ = B.__qualname__
    classes = [Feedback, A, B, C, D]
    saved = {f: Feedback.__dict__.get(f, '__absent__') for f in FIELDS}

    def snap():
        return [[(c.__dict__[f] if f in c.__dict__ else '__absent__') for f in FIELDS] + [getattr(c, f) for f in FIELDS]
                for c in classes]
    obs = [snap()]
    err = None
    # report 0 is MAIN_REPORT (addressed implicitly, as instructor code does); reports 1.. are separate Report objects
    others = [None, Report(), Report()]
    from pedal.core.submission import Submission
    same_submission = Submission(main_code='y = 2\n')
    for op in case:
        try:
            rep = op[3] if op[0] == 'override' and len(op) > 3 else (op[1] if op[0] != 'override' and len(op) > 1 else 0)
            kw = {'report': others[rep]} if rep else {}
            if op[0] == 'override':
                classes[op[1]].override(**kw, **{FIELDS[f]: v for f, v in op[2]})
            elif op[0] == 'clear':
                if rep:
                    others[rep].clear()
                else:
                    clear_report()
            elif op[0] == 'contextualize_same':
                # the very same Submission object attached again (a grader that re-runs on one submission)
                contextualize_report(same_submission, **kw)
            else:
                contextualize_report('x = 1', **kw)
        except Exception as e:
            err = type(e).__name__ + ': ' + str(e)[:100]
        obs.append(snap())
    # leave the Feedback base class as found
    MAIN_REPORT.clear()
    for o in others[1:]:
        o.clear()
    for f, v in saved.items():
        if v == '__absent__':
            if f in Feedback.__dict__:
                delattr(Feedback, f)
        else:
            setattr(Feedback, f, v)
    if '_override_backups' in Feedback.__dict__ and Feedback._override_backups:
        Feedback._override_backups.clear()
    return {'obs': obs, 'err': err}


def repeated(spec):
    """the same feedback class created several times in one grading: every object is rendered from ITS OWN fields
    (keywords, constant_fields of the class, location); nothing leaks from one call to the next"""
    MAIN_REPORT.full_clear()
    contextualize_report('a = 1\nb = 2\nc = 3\nd = 4\ne = 5\n')
    const = {'c': 'K'} if spec['constant'] else None

    class rep_fb(Feedback):
        message_template = 'T:{x}:{c}' if spec['constant'] else 'T:{x}'
        constant_fields = const

        def condition(self, *a, **k):
            return True
    problems = []
    objs = []
    for i, call in enumerate(spec['calls']):
        kw = {}
        if call.get('x') is not None:
            kw['x'] = call['x']
        if call.get('line') is not None:
            kw['location'] = call['line']
        if call.get('fields'):
            kw['fields'] = {'x': call['x']} if call.get('x') is not None else {}
            kw.pop('x', None)
        before = (len(MAIN_REPORT.feedback), len(MAIN_REPORT.ignored_feedback))
        try:
            obj = rep_fb(**kw)
            raised = None
        except Exception as e:
            obj, raised = None, type(e).__name__
        added = (len(MAIN_REPORT.feedback) - before[0], len(MAIN_REPORT.ignored_feedback) - before[1])
        want_x = call.get('x')
        if want_x is None:
            if raised is None:
                problems.append('call %d omits the field x the template needs, yet no exception reached the caller (message %r)' % (i, getattr(obj, 'message', None)))
            if added != (0, 1):
                problems.append('call %d (template cannot be rendered): added %s to (triggered, untriggered), expected (0, 1)' % (i, added))
        else:
            want = 'T:%s:K' % want_x if spec['constant'] else 'T:%s' % want_x
            if raised is not None:
                problems.append('call %d raised %s' % (i, raised))
            elif obj.message != want:
                problems.append('call %d: message %r, expected %r from its own fields' % (i, obj.message, want))
            elif added != (1, 0):
                problems.append('call %d: added %s to (triggered, untriggered), expected (1, 0)' % (i, added))
            if obj is not None and call.get('line') is not None:
                loc = obj.location.line if obj.location is not None else None
                if loc != call['line']:
                    problems.append('call %d: location line %r, the call said %r' % (i, loc, call['line']))
                fl = obj.fields.get('location')
                fl = getattr(fl, 'line', fl)
                if fl is not None and fl != call['line']:
                    problems.append("call %d: fields['location'] is line %r, the call said %r" % (i, fl, call['line']))
        objs.append((obj, call))
    for i, (obj, call) in enumerate(objs):
        if obj is not None and call.get('x') is not None and obj.fields.get('x') != call['x']:
            problems.append('after the later calls, the fields of object %d changed: x is %r, was %r' % (i, obj.fields.get('x'), call['x']))
    if spec['constant'] and rep_fb.constant_fields != {'c': 'K'}:
        problems.append('the class attribute constant_fields was modified: %r' % (rep_fb.constant_fields,))
    return problems


def core_commands():
    """every core command, called the way the documentation shows: exactly one object recorded, carrying the text it was given"""
    from pedal.core import commands as C
    out = []
    calls = [('gently', lambda: C.gently('text G', label='g')), ('explain', lambda: C.explain('text E', label='e')),
             ('guidance', lambda: C.guidance('text U', label='u')), ('compliment', lambda: C.compliment('text C', label='c')),
             ('give_partial', lambda: C.give_partial(0.5, message='text P')), ('set_correct', lambda: C.set_correct()),
             ('feedback', lambda: C.feedback(message='text F', label='f')), ('system_error', lambda: C.system_error('tool', 'text S')),
             ('log', lambda: C.log('text L')), ('log-several', lambda: C.log('text', 7, sep='-')),
             ('debug', lambda: C.debug('text D')), ('debug-several', lambda: C.debug('text D1', 'text D2'))]
    for name, fn in calls:
        MAIN_REPORT.full_clear()
        rec = {'command': name, 'raised': None}
        try:
            fn()
        except Exception as e:
            rec['raised'] = type(e).__name__ + ': ' + str(e)[:80]
        fbs = MAIN_REPORT.feedback + MAIN_REPORT.ignored_feedback
        rec['recorded'] = [[f.label, f.message if isinstance(f.message, str) else repr(f.message), bool(f)] for f in fbs]
        out.append(rec)
    MAIN_REPORT.full_clear()
    return out


def main():
    data = json.load(sys.stdin)
    out = {'available': list(Formatter.available),
           'repeated': [repeated(s) for s in data.get('repeated', [])],
           'creation': [creation(s) for s in data['creation']],
           'formatting': formatting(data['formatting']),
           'formatting_typed': formatting_typed() if data.get('typed') else [],
           'parents': parents() if data.get('typed') else [],
           'formatting_instances': formatting_instances() if data.get('typed') else [],
           'core_commands': core_commands() if data.get('typed') else [],
           'overrides': [overrides(c) for c in data['overrides']]}
    json.dump(out, open(sys.argv[1], 'w'), default=str)


main()
