"""Drives the real section machinery.  stdin {"cases":[{"file":..., "independent":bool, "pattern":str|None, "steps":[op,...]}]}"""
import json
import re
import sys

from pedal.core.commands import contextualize_report
from pedal.core.report import MAIN_REPORT
from pedal.core.submission import Submission
from pedal.source import verify
from pedal.source.sections import separate_into_sections, next_section, stop_sections, DEFAULT_SECTION_PATTERN
from pedal.tifa import tifa_analysis
from pedal.sandbox import commands as S
from pedal.resolvers import simple


def fb_info(f):
    loc = f.location
    msg = f.message if isinstance(f.message, str) else ''
    return {'label': f.label, 'category': f.category, 'line': None if loc is None else getattr(loc, 'line', None),
            'msg_lines': [int(x) for x in re.findall(r'[Ll]ine (\d+)', msg or '')],
            'fields': {k: v for k, v in (f.fields or {}).items() if isinstance(v, (int, str)) and k in ('count', 'found', 'name')}}


def main():
    data = json.load(sys.stdin)
    out = []
    for case in data['cases']:
        contextualize_report(Submission(main_file=case.get('name', 'answer.py'), main_code=case['file']))
        rep = MAIN_REPORT
        steps = []
        err = None
        seen = 0
        for op in case['steps']:
            try:
                if op == 'separate':
                    if case.get('pattern'):
                        separate_into_sections(pattern=case['pattern'], independent=case['independent'])
                    else:
                        separate_into_sections(independent=case['independent'])
                elif op == 'next':
                    next_section()
                elif op == 'verify':
                    verify()
                elif op == 'tifa':
                    tifa_analysis()
                elif op == 'run':
                    S.clear_sandbox()
                    S.run()
                elif op.startswith('call:'):
                    S.call(op[5:])
                elif op == 'stop':
                    stop_sections()
                elif op == 'resolve':
                    simple.resolve()
            except BaseException as e:
                err = {'op': op, 'exc': type(e).__name__, 'msg': str(e)[:200]}
            fbs = rep.feedback + rep.ignored_feedback
            new = [fb_info(f) for f in fbs[seen:] if f.category != 'system' or f.label in ('not_enough_sections',)]
            seen = len(fbs)
            src = rep['source']
            steps.append({'op': op, 'main': rep.submission.main_code,
                          'offset': rep.submission.line_offsets.get(rep.submission.main_file, 0),
                          'depth': len(src['substitutions']), 'sections': src['sections'], 'new': new, 'err': err,
                          'n_not_enough': sum(1 for f in rep.feedback + rep.ignored_feedback if f.label == 'not_enough_sections')})
            if err:
                break
        out.append({'steps': steps, 're_split': re.split(case.get('pattern') or DEFAULT_SECTION_PATTERN, case['file'], flags=re.MULTILINE)})
    json.dump(out, open(sys.argv[1], 'w'))


main()
