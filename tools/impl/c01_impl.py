"""Builds real pedal reports from case specs and resolves them.
stdin {"cases":[{"feedbacks":[{"ctor":..,"kwargs":{..}}], "suppress":[{"category","label","fields"}]}],
       "keys":[[category, priority]], "scores":[[string, current]]}"""
import json
import sys
from fractions import Fraction

from pedal.core.report import MAIN_REPORT
from pedal.core.feedback import Feedback
from pedal.core import commands as C
from pedal.core.scoring import Score
from pedal.resolvers import simple, full, sectional


class neg_fb(Feedback):
    """ assertion-like negative feedback """
    category = Feedback.CATEGORIES.SPECIFICATION
    valence = Feedback.NEGATIVE_VALENCE
    kind = Feedback.KINDS.MISTAKE
    message_template = "negative"


class runtime_like(Feedback):
    category = Feedback.CATEGORIES.RUNTIME
    valence = Feedback.NEGATIVE_VALENCE
    kind = Feedback.KINDS.MISTAKE
    message_template = "runtime"


class muted_default(Feedback):
    """ muted unless the call says otherwise """
    category = Feedback.CATEGORIES.INSTRUCTOR
    valence = Feedback.NEGATIVE_VALENCE
    kind = Feedback.KINDS.MISTAKE
    muted = True
    message_template = "quiet"


class unscored_default(Feedback):
    category = Feedback.CATEGORIES.INSTRUCTOR
    valence = Feedback.NEGATIVE_VALENCE
    kind = Feedback.KINDS.MISTAKE
    unscored = True
    message_template = "no points"


CTORS = {'muted_default': muted_default, 'unscored_default': unscored_default, 'Feedback': Feedback, 'compliment': C.compliment, 'set_correct': C.set_correct, 'give_partial': C.give_partial,
         'gently': C.gently, 'explain': C.explain, 'guidance': C.guidance, 'neg': neg_fb, 'runtime_like': runtime_like}


def build(spec, report=None):
    ctor = CTORS[spec['ctor']]
    kw = dict(spec['kwargs'])
    pos = kw.pop('_pos', [])
    if report is not None:
        kw['report'] = report
    return ctor(*pos, **kw)


def snap(f, i, active):
    fields = {}
    for k, v in (f.fields or {}).items():
        if v is None or isinstance(v, (bool, int, str)):
            fields[k] = v
    return {'id': i, 'active_list': active, 'category': f.category, 'label': f.label, 'priority': f.priority,
            'kind': f.kind, 'muted': bool(f.muted), 'unscored': bool(f.unscored), 'triggered': bool(f),
            'class_muted': bool(getattr(type(f), 'muted', False)), 'class_unscored': bool(getattr(type(f), 'unscored', False)),
            'else': bool(f.else_message), 'correct': bool(f.correct),
            'score': None if f.score is None else str(f.score), 'score_type': type(f.score).__name__,
            'negative': f.valence == Feedback.NEGATIVE_VALENCE, 'valence': f.valence,
            'parent': f.parent if isinstance(f.parent, (str, int)) or f.parent is None else 'object',
            'has_message': f.message is not None, 'message': f.message, 'title': f.title, 'fields': fields}


def frac(x):
    fr = Fraction(x).limit_denominator(10 ** 9)
    return [fr.numerator, fr.denominator]


def run_case(case):
    MAIN_REPORT.full_clear()
    rep = None
    R = MAIN_REPORT
    if case.get('other_report'):
        # the grading happens on a report of its own; the global report holds unrelated feedback and suppressions
        from pedal.core.report import Report
        rep = R = Report()
        Feedback(category='runtime', label='decoy', message='decoy on the main report', score='+25%')
        for cat in ('runtime', 'syntax', 'algorithmic', 'instructor', 'specification', 'student', 'style', 'positive', 'uncategorized'):
            C.suppress(category=cat)
        for lab in ('alpha', 'beta', 'Gamma', 'delta', 'gamma'):
            C.suppress(label=lab)
    if case.get('pool'):
        # one pool chosen for this learner; per-pool overrides of category / priority apply to the feedback before it is ranked
        R.set_pools([case['pool']['name']])
        Feedback.override_for_pool(case['pool']['name'], **case['pool']['fields'])
    objs = []
    ctor_errors = []
    spec_index = {}
    for k, spec in enumerate(case['feedbacks']):
        try:
            objs.append(build(spec, rep))
            spec_index[id(objs[-1])] = k
        except Exception as e:  # constructor refused (e.g. compliment without message)
            ctor_errors.append(type(e).__name__)
    for s in case['suppress']:
        kw = {}
        if s.get('category') is not None:
            kw['category'] = s['category']
        if s.get('label') is not None:
            kw['label'] = s['label']
        if s.get('fields') is not None:
            kw['fields'] = s['fields']
        if rep is not None:
            kw['report'] = rep
        C.suppress(**kw)
    ids = {id(o): i for i, o in enumerate(objs)}
    out_pool = None
    snaps_active = [dict(snap(o, ids[id(o)], True), spec=spec_index[id(o)]) for o in R.feedback if id(o) in ids]
    snaps_ignored = [dict(snap(o, ids[id(o)], False), spec=spec_index[id(o)]) for o in R.ignored_feedback if id(o) in ids]
    out = {'active': snaps_active, 'ignored': snaps_ignored, 'ctor_errors': ctor_errors,
           'suppressions': repr(R.suppressions), 'suppressed_labels': repr(R.suppressed_labels)}
    def describe(final):
        used = final.used[0] if final.used else None
        return {
            'used': ids.get(id(used)) if used is not None else None,
            'title': final.title, 'message': final.message, 'label': final.label, 'category': final.category,
            'correct': final.correct, 'success': final.success, 'json_correct': final.to_json()['correct'],
            'score': frac(final.score), 'score_raw': repr(final.score), 'scores': list(final._scores),
            'positives': [ids[id(p)] for p in final.positives if id(p) in ids],
            'is_default': final.label == final.DEFAULT_NO_FEEDBACK_LABEL and final.category == 'complete'
                          and not final.hide_correctness,
            'hide': bool(final.hide_correctness),
            'used_title_ok': used is None or (final.title == (used.title or used.label) and final.message is used.message
                                              and final.label == used.label and final.category == used.category),
            'default_text': [final.DEFAULT_NO_FEEDBACK_TITLE, final.DEFAULT_NO_FEEDBACK_MESSAGE,
                             C.set_correct.title, C.set_correct.message_template],
            'resolved_scores': {ids[id(o)]: o.resolved_score for o in objs},
        }
    try:
        final = simple.resolve(R) if rep is not None else simple.resolve()
        out['simple'] = describe(final)
    except Exception as e:
        out['simple'] = {'raise': type(e).__name__, 'msg': str(e)[:200]}
    # the sectional resolver: the same choice, made separately among the feedback of each parent
    try:
        finals = sectional.resolve(R) if rep is not None else sectional.resolve()
        out['sectional'] = [[g if isinstance(g, (str, int)) or g is None else 'object', describe(f)] for g, f in finals.items()]
    except Exception as e:
        out['sectional'] = {'raise': type(e).__name__, 'msg': str(e)[:200]}
    try:
        final2 = full.resolve(R) if rep is not None else full.resolve()
        out['full'] = {'used': [ids[id(u)] for u in final2.used], 'label': final2.label, 'correct': final2.correct}
    except Exception as e:
        out['full'] = {'raise': type(e).__name__}
    # resolving the same report once more must give the same answer (nothing about the report is consumed or grown by a resolve)
    try:
        final3 = simple.resolve(R) if rep is not None else simple.resolve()
        out['simple_again'] = describe(final3)
        out['n_feedback_after'] = [len(R.feedback), len(R.ignored_feedback)]
    except Exception as e:
        out['simple_again'] = {'raise': type(e).__name__, 'msg': str(e)[:200]}
    # the same feedback recorded in the opposite order: the property's answer is determined the same way
    try:
        R.feedback.reverse()
        try:
            final5 = simple.resolve(R) if rep is not None else simple.resolve()
            out['simple_reversed'] = describe(final5)
        finally:
            R.feedback.reverse()
    except Exception as e:
        out['simple_reversed'] = {'raise': type(e).__name__, 'msg': str(e)[:200]}
    # a suppression added after the report was resolved, then one more resolve
    if case.get('late_suppress') is not None:
        s = case['late_suppress']
        kw = {k: s[k] for k in ('category', 'label', 'fields') if s.get(k) is not None}
        if rep is not None:
            kw['report'] = rep
        try:
            C.suppress(**kw)
            final4 = simple.resolve(R) if rep is not None else simple.resolve()
            out['simple_late'] = describe(final4)
        except Exception as e:
            out['simple_late'] = {'raise': type(e).__name__, 'msg': str(e)[:200]}
    return out


def main():
    data = json.load(sys.stdin)
    res = {'cases': [run_case(c) for c in data.get('cases', [])], 'keys': [], 'scores': [], 'floatkeys': []}
    for cat, pri in data.get('keys', []):
        MAIN_REPORT.full_clear()
        f = Feedback(category=cat, priority=pri, label='k')
        res['keys'].append(simple.by_priority(f))
    for s, cur in data.get('scores', []):
        try:
            sc = Score.parse(s)
            r = sc.add_to_current(Fraction(cur[0], cur[1]) if False else cur[0] / cur[1])
            res['scores'].append(frac(r))
        except Exception as e:
            res['scores'].append({'raise': type(e).__name__})
    json.dump(res, open(sys.argv[1], 'w'))


main()
