"""Runs op sequences on the real sandbox. stdin {"cases":[[op,...]]}; op = dict(see tools/props/c15.py)."""
import json
import sys

from pedal.core.commands import contextualize_report
from pedal.core.report import MAIN_REPORT
from pedal.sandbox import commands as S


def observe(sb):
    return {'raw': sb.raw_output, 'out': list(sb.output), 'inputs': [x for x in S.get_input()],
            'ctxs': [[c.output, list(c.inputs)] for c in sb._context],
            'raw_cmd': S.get_raw_output(), 'out_cmd': list(S.get_output()), 'ctx_ids': [getattr(c, 'context_id', None) for c in sb._context]}


def scenarios():
    """a few whole scenarios judged against a plain simulation of print/input (tools/props/c15.py: scenario_oracle)"""
    from pedal.sandbox.mocked import make_inputs
    out = {}
    ask = 'for i in range(4):\n    x = input("Q%d>" % i)\n    print("got", x)\n'
    # an input provider with a repeated default once its list is used up
    contextualize_report(ask)
    S.clear_sandbox()
    sb = S.get_sandbox()
    sb.set_input(make_inputs(['a', 'b'], repeat='r'))
    S.run()
    out['provider-with-repeat'] = {'raw': sb.raw_output, 'exc': None if sb.exception is None else type(sb.exception).__name__}
    # many reads, in several executions of one sandbox: the limit on reads is per execution
    many = 'def drain(n):\n    t = 0\n    for i in range(n):\n        t += len(input())\n    return t\nprint(drain(45000))\n'
    contextualize_report(many)
    S.clear_sandbox()
    sb = S.get_sandbox()
    S.run()
    first = None if sb.exception is None else type(sb.exception).__name__
    r2 = S.call('drain', 45000)
    second = None if sb.exception is None else type(sb.exception).__name__
    S.queue_input('abc')
    r3 = S.evaluate('drain(45000)')
    third = None if sb.exception is None else type(sb.exception).__name__
    out['many-reads'] = {'excs': [first, second, third], 'results': [repr(S.get_raw_output())[-12:], repr(r2), repr(r3)]}
    # what is written to standard ERROR is not output
    contextualize_report('import sys\nprint("to out")\nsys.stderr.write("to err\\n")\nprint("warn", file=sys.stderr)\nprint("out again")\n')
    S.clear_sandbox()
    sb = S.get_sandbox()
    import io
    real_err = sys.stderr
    sys.stderr = io.StringIO()
    try:
        S.run()
    finally:
        sys.stderr = real_err
    out['stderr'] = {'raw': sb.raw_output, 'lines': list(sb.output), 'exc': None if sb.exception is None else type(sb.exception).__name__}
    return out


def main():
    data = json.load(sys.stdin)
    if data.get('scenarios'):
        json.dump(scenarios(), open(sys.argv[1], 'w'))
        return
    res = []
    for case in data['cases']:
        contextualize_report(case['main'])
        S.clear_sandbox()
        sb = S.get_sandbox()
        if case.get('real_io'):
            # printing is also echoed to the real console; what is recorded must be the same
            sb.allow_function('print')   # the output half of allow_real_io(); inputs stay queued
        obs = []
        err = None
        for op in case['ops']:
            ret = None
            try:
                k = op['op']
                if k == 'exec':
                    kw = {}
                    if op.get('inputs') is not None:
                        kw['inputs'] = op['inputs']
                    if op['how'] == 'run':
                        S.run(op['code'], **kw)
                    elif op['how'] == 'runmain':
                        S.run(**kw)
                    elif op['how'] == 'call':
                        ret = S.call(op['fn'], **kw)
                    else:
                        ret = S.evaluate(op['fn'] + '()')
                elif k == 'clear_output':
                    S.clear_output()
                elif k == 'set_input':
                    kw = {'clear': False} if op.get('keep') else {}
                    (sb if op.get('via') == 'object' else S).set_input(op['xs'], **kw)
                elif k == 'queue_input':
                    S.queue_input(*op['xs'])
                elif k == 'clear_input':
                    S.clear_input()
                elif k == 'clear_context':
                    sb.clear_context()
            except BaseException as e:
                err = '%s: %s' % (type(e).__name__, str(e)[:200])
                break
            ob = observe(sb)
            if op['op'] == 'exec' and op['how'] in ('call', 'evaluate') and hasattr(ret, '_actual_context_id'):
                try:
                    found = sb.get_context(ret._actual_context_id)
                    ob['result_lookup'] = True if (found and found[-1] is sb._context[-1]) else 'get_context(%r) gives %r' % (ret._actual_context_id, found)
                except Exception as e:
                    ob['result_lookup'] = 'get_context(%r) raised %s: %s' % (ret._actual_context_id, type(e).__name__, e)
            obs.append(ob)
        res.append({'obs': obs, 'error': err, 'stdout_restored': sys.stdout is sys.__stdout__})
    json.dump(res, open(sys.argv[1], 'w'))


main()
