"""A module whose top-level code leaves the interpreter when it is imported (what `import venv.__main__` does, without the side
effects): TIFA really imports the modules a program names, to look for _tifa_definitions."""
import sys

sys.exit(3)
