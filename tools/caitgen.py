"""Patterns for the CAIT checks (C10 / C11): derived from a program by the generalisation steps of C11
(fragment, sub-expressions -> ___ / __eK__, identifiers -> _v_ consistently, siblings dropped), and perturbed /
independent patterns that usually do not occur in the program."""
import ast
import copy

import pygen

PLACEHOLDER_FREE = lambda name: not (name.startswith('_') and name.endswith('_'))


class Refuse(Exception):
    pass


def _bodies(tree):
    for node in ast.walk(tree):
        for fname in ('body', 'orelse', 'finalbody'):
            v = getattr(node, fname, None)
            if isinstance(v, list) and v and isinstance(v[0], ast.stmt):
                yield node, fname


def _expr_sites(tree):
    """(parent, field, index|None) of every expression that may be replaced by a Name"""
    sites = []
    for parent in ast.walk(tree):
        if isinstance(parent, (ast.JoinedStr, ast.FormattedValue, ast.expr_context, ast.operator, ast.keyword)) and not isinstance(parent, ast.keyword):
            continue
        for fname, value in ast.iter_fields(parent):
            if isinstance(parent, (ast.FunctionDef, ast.ClassDef)) and fname in ('decorator_list', 'returns', 'type_params'):
                continue
            if isinstance(parent, ast.arg):
                continue
            if isinstance(value, ast.expr):
                sites.append((parent, fname, None))
            elif isinstance(value, list):
                for k, v in enumerate(value):
                    if isinstance(v, ast.expr):
                        sites.append((parent, fname, k))
    return sites


def _get(site):
    parent, fname, k = site
    v = getattr(parent, fname)
    return v if k is None else v[k]


def _set(site, new):
    parent, fname, k = site
    if k is None:
        setattr(parent, fname, new)
    else:
        getattr(parent, fname)[k] = new


def derive(rng, src, allow=('fragment', 'drop', 'hole', 'rename')):
    """-> (pattern source, expectations) ; expectations: {'names': {placeholder: original id}, 'exps': {placeholder:
    original source}, 'steps': [...]}.  Raises Refuse when the derived tree does not survive unparse/parse."""
    tree = ast.parse(src)
    steps = []
    # 1. fragment
    if 'fragment' in allow and rng.random() < 0.45:
        stmts = [n for n in ast.walk(tree) if isinstance(n, ast.stmt)]
        chosen = rng.choice(stmts)
        tree = ast.Module(body=[copy.deepcopy(chosen)], type_ignores=[])
        steps.append('statement:' + type(chosen).__name__)
    else:
        tree = copy.deepcopy(tree)
        steps.append('whole')
    # 2. drop sibling statements (keeping at least one per block)
    if 'drop' in allow and rng.random() < 0.6:
        for node, fname in list(_bodies(tree)):
            body = getattr(node, fname)
            if len(body) > 1 and rng.random() < 0.6:
                keep = sorted(rng.sample(range(len(body)), rng.randrange(1, len(body))))
                setattr(node, fname, [body[k] for k in keep])
                steps.append('drop')
    # 3. sub-expressions -> ___ / __eK__
    exps = {}
    if 'hole' in allow and rng.random() < 0.7:
        n_holes = rng.randrange(1, 4)
        for h in range(n_holes):
            sites = _expr_sites(tree)
            sites = [s for s in sites if not (isinstance(_get(s), ast.Name) and not PLACEHOLDER_FREE(_get(s).id))]
            if not sites:
                break
            site = rng.choice(sites)
            old = _get(site)
            if any(isinstance(x, ast.Name) and not PLACEHOLDER_FREE(x.id) for x in ast.walk(old)):
                continue  # do not swallow an earlier hole
            ctx = getattr(old, 'ctx', ast.Load())
            if rng.random() < 0.5:
                name = '___'
            else:
                name = '__e%d__' % h
                exps[name] = ast.unparse(old)
            _set(site, ast.Name(id=name, ctx=ctx))
            steps.append('hole:' + type(old).__name__)
    # 4. identifiers -> _v_ consistently
    names = {}
    if 'rename' in allow and rng.random() < 0.7:
        ids = sorted({n.id for n in ast.walk(tree) if isinstance(n, ast.Name) and PLACEHOLDER_FREE(n.id)})
        rng.shuffle(ids)
        also_defs = rng.random() < 0.5
        for ident in ids[:rng.randrange(1, 4)]:
            ph = '_%s_' % ident
            names[ph] = ident
            for n in ast.walk(tree):
                if isinstance(n, ast.Name) and n.id == ident:
                    n.id = ph
                elif also_defs and isinstance(n, ast.arg) and n.arg == ident:
                    n.arg = ph
                elif also_defs and isinstance(n, (ast.FunctionDef, ast.ClassDef)) and n.name == ident:
                    n.name = ph
            steps.append('rename')
    ast.fix_missing_locations(tree)
    try:
        text = ast.unparse(tree)
        back = ast.parse(text)
    except Exception as e:
        raise Refuse(str(e))
    if ast.dump(back) != ast.dump(tree):
        raise Refuse('unparse/parse does not round-trip')
    return text + '\n', {'names': names, 'exps': exps, 'steps': steps}


FRESH = ['zzq', 'qqz', 'wvu']


def perturb(rng, pattern_src):
    """a small edit of a pattern: usually no longer derivable from the program.  -> (source, kind)"""
    tree = ast.parse(pattern_src)
    nodes = list(ast.walk(tree))
    kind = rng.choice(['const', 'ident', 'swap-stmts', 'swap-operands', 'op', 'extra-arg', 'fresh-ident', 'cmp', 'attr'])
    done = False
    if kind == 'const':
        cs = [n for n in nodes if isinstance(n, ast.Constant)]
        if cs:
            c = rng.choice(cs)
            c.value = rng.choice([v for v in (0, 1, 2, 7, 1.0, True, False, None, 'a', 'zz', '', b'ab', b'a', 2j, 7j, ...) if not (type(v) is type(c.value) and v == c.value)])
            done = True
    elif kind in ('ident', 'fresh-ident'):
        ns = [n for n in nodes if isinstance(n, ast.Name) and PLACEHOLDER_FREE(n.id)]
        if ns:
            n = rng.choice(ns)
            n.id = rng.choice(FRESH) if kind == 'fresh-ident' else rng.choice([x for x in pygen.NAMES + pygen.FUNCS if x != n.id])
            done = True
    elif kind == 'swap-stmts':
        bs = [(node, f) for node, f in _bodies(tree) if len(getattr(node, f)) > 1]
        if bs:
            node, f = rng.choice(bs)
            body = getattr(node, f)
            k = rng.randrange(len(body) - 1)
            body[k], body[k + 1] = body[k + 1], body[k]
            done = True
    elif kind == 'swap-operands':
        bs = [n for n in nodes if isinstance(n, ast.BinOp)]
        if bs:
            b = rng.choice(bs)
            b.left, b.right = b.right, b.left
            done = True
        else:
            cs = [n for n in nodes if isinstance(n, ast.Call) and len(n.args) > 1]
            if cs:
                c = rng.choice(cs)
                c.args[0], c.args[1] = c.args[1], c.args[0]
                done = True
    elif kind == 'op':
        bs = [n for n in nodes if isinstance(n, ast.BinOp)]
        if bs:
            b = rng.choice(bs)
            b.op = rng.choice([o for o in (ast.Add, ast.Sub, ast.Mult, ast.Div, ast.Mod) if not isinstance(b.op, o)])()
            done = True
    elif kind == 'extra-arg':
        cs = [n for n in nodes if isinstance(n, ast.Call)]
        if cs:
            c = rng.choice(cs)
            c.args.insert(rng.randrange(len(c.args) + 1), ast.Constant(value=rng.choice([0, 'k', 3])))
            done = True
    elif kind == 'cmp':
        cs = [n for n in nodes if isinstance(n, ast.Compare)]
        if cs:
            c = rng.choice(cs)
            k = rng.randrange(len(c.ops))
            c.ops[k] = rng.choice([o for o in (ast.Eq, ast.NotEq, ast.Lt, ast.GtE, ast.In) if not isinstance(c.ops[k], o)])()
            done = True
    elif kind == 'attr':
        cs = [n for n in nodes if isinstance(n, ast.Attribute)]
        if cs:
            c = rng.choice(cs)
            c.attr = rng.choice([a for a in pygen.ATTRS + ['zzq'] if a != c.attr])
            done = True
    if not done:
        return None, kind
    ast.fix_missing_locations(tree)
    try:
        text = ast.unparse(tree) + '\n'
        ast.parse(text)
    except Exception:
        return None, kind
    return text, kind


HAND_PATTERNS = [
    '_v_ = ___\n', '___ = _v_\n', '_a_ = _a_ + ___\n', '_a_ = ___ + _a_\n', '_a_ = _b_\n', '_a_ + _a_\n', '_a_ * _b_\n',
    'for _i_ in ___:\n    pass\n', 'for _i_ in _l_:\n    __body__\n', 'for _i_ in ___:\n    _t_ = _t_ + _i_\n',
    'while ___:\n    pass\n', 'if ___:\n    pass\n', 'if ___:\n    pass\nelse:\n    pass\n', 'if __c__:\n    ___\n',
    'def _f_():\n    pass\n', 'def _f_(_p_):\n    return ___\n', 'def _f_(_p_):\n    pass\n_f_(___)\n', 'def ___():\n    pass\n',
    'print(___)\n', 'print(___, ___)\n', '_f_(___)\n', '_f_()\n', '___(_x_, _x_)\n', '_f_(_f_)\n', '_o_._m_(___)\n', '___.append(___)\n',
    '_x_.append(_x_)\n', '___[___]\n', '_l_[_i_] = ___\n', 'return ___\n', 'return _v_\n', '___ == ___\n', '_a_ < _b_\n', '___ and ___\n',
    'import ___\n', 'import math\n', '___ = ___\n___ = ___\n', '_a_ = ___\n_b_ = _a_\n', '_a_ = ___\nprint(_a_)\n', '___\n___\n', '__e__\n',
    '___ = 0\n', '___ = 1\n', '___ = True\n', '___ = None\n', "___ = ''\n", '___ = 1.0\n', '___ = []\n', '[___, ___]\n', '(___, ___)\n',
    'class _C_:\n    pass\n', 'class _C_:\n    def _m_(self, ___):\n        pass\n', 'x\n', 'a + b\n', 'b + a\n', 'a - b\n', 'a * (b + c)\n',
    'a = 0\n', 'total = total + ___\n', 'global a\n', 'global a, b\n', 'pass\n', 'with ___ as _w_:\n    pass\n',
    'try:\n    pass\nexcept ___:\n    pass\n', 'assert ___, ___\n', 'del _d_\n', '_a_, _b_ = ___\n', 'lambda _p_: ___\n',
    '[___ for _q_ in ___]\n', '___ if ___ else ___\n', '-___\n', 'not ___\n', '_a_ += ___\n', '_a_: int = ___\n', 'raise ___\n',
    '__a__ + __a__\n', '__a__ + __b__\n', 'f(___)\n', 'foo(x=___)\n', 'print(___, end=___)\n', "f'v={___}'\n",
]


def random_pattern(rng):
    """an independent small pattern: a generated statement with some names turned into placeholders"""
    g = pygen.Gen(rng, max_depth=2, full=False)
    src = g.program(nstmts=rng.randrange(1, 3))
    try:
        text, _ = derive(rng, src, allow=('hole', 'rename'))
        return text
    except Refuse:
        return src


TEMPLATES = ['{v} = 0\n', '{v} = 1\n', '{v} += 1\n', '{v} = {v} + {w}\n', '{v} = {w} + {v}\n', 'print({v})\n', '{v} = {w}\n',
             '{v} = {v} * 2\n', '{v}.append({w})\n', '{v} = []\n', 'if {v} > {w}:\n    {v} = {w}\n', 'for {v} in {w}:\n    print({v})\n',
             '{v} = input()\n', '{v} = int({w})\n', 'while {v} < {w}:\n    {v} += 1\n', 'def f_{v}({w}):\n    return {w} + {v}\n',
             '{v} = f_{w}({v})\n', '{v}, {w} = {w}, {v}\n',
             # commutative operators nested in commutative operators (several alternative pairings per operand)
             '{v} = {w} + {v} * {w}\n', '{v} = ({v} + {w}) * ({w} + 1)\n', '{v} = {v} * {w} + {w} * {v}\n', '{v} = 1 + ({w} + ({v} + 2))\n']


def similar_program(rng):
    """several sibling statements of the same few shapes over two or three variables: the same pattern statement has
    many candidate siblings with different bindings - what the sibling-index bookkeeping and the conflict check of
    the matcher are about"""
    names = rng.sample(['x', 'y', 'z', 'n', 'total'], rng.randrange(2, 4))
    shapes = rng.sample(TEMPLATES, rng.randrange(2, 5))
    out = []
    for _ in range(rng.randrange(3, 9)):
        v = rng.choice(names)
        w = rng.choice(names)
        out.append(rng.choice(shapes).format(v=v, w=w))
    if rng.random() < 0.3:
        body = ''.join('    ' + line for s in out[len(out) // 2:] for line in s.splitlines(True))
        out = out[:len(out) // 2] + ['for k in range(3):\n' + body]
    return ''.join(out)


SEQ_TEMPLATES = ['{v} = 0\n', '{v} += 1\n', '{v} = {v} + 1\n', 'print({v})\n', '{v} = []\n', '{v}.append(1)\n', '{v} = {v} * 2\n',
                 '{v} -= 1\n', '{v} = input()\n', '{v} = int({v})\n', 'del {v}\n', '{v} = {v}\n',
                 '{v} = 2 + {v} * 3\n', '{v} = ({v} + 1) * ({v} + 2)\n']


def twin_case(rng):
    """the same little statement sequence written for two or three variables and interleaved; patterns: one twin kept
    whole, a random part of the others, every variable renamed to a placeholder.  Several candidate siblings per
    pattern statement with conflicting bindings, and a unique consistent assignment.
    -> (program, [(pattern, expectations)])"""
    names = rng.sample(['x', 'y', 'z', 'n'], rng.randrange(2, 4))
    seq = [rng.choice(SEQ_TEMPLATES) for _ in range(rng.randrange(2, 5))]
    queues = {v: [t.format(v=v) for t in seq] for v in names}
    order = []
    while any(queues.values()):
        v = rng.choice([v for v in names if queues[v]])
        order.append((v, queues[v].pop(0)))
    program = ''.join(s for _, s in order)
    pats = []
    for _ in range(rng.randrange(2, 5)):
        main = rng.choice(names)
        kept = [(v, s) for v, s in order if v == main or rng.random() < 0.45]
        if not kept:
            continue
        text = ''.join(s for _, s in kept)
        tree = ast.parse(text)
        ren = {}
        for n in ast.walk(tree):
            if isinstance(n, ast.Name) and n.id in names:
                ren['_%s_' % n.id] = n.id
                n.id = '_%s_' % n.id
        pats.append((ast.unparse(tree) + '\n', {'names': ren, 'exps': {}, 'steps': ['whole', 'drop', 'rename', 'twin']}))
    return program, pats


def call_twins(rng):
    """assignments of calls to two or three different functions, interleaved; patterns keep the calls of ONE function
    (the others are dropped), rename the function to a placeholder used in every kept statement, the targets to
    placeholders, and generalise some arguments.  -> (program, [(pattern, expectations)])"""
    funcs = rng.sample(['foo', 'bar', 'baz', 'load'], rng.randrange(2, 4))
    n = rng.randrange(3, 7)
    stmts = []
    for k in range(n):
        f = rng.choice(funcs)
        stmts.append((f, 'r%d = %s(%d)\n' % (k, f, rng.randrange(1, 4))))
    program = ''.join(s for _, s in stmts)
    pats = []
    for f in funcs:
        kept = [s for g, s in stmts if g == f]
        if len(kept) < 2:
            continue
        tree = ast.parse(''.join(kept))
        ren = {'_f_': f}
        for k, node in enumerate(tree.body):
            tgt = node.targets[0]
            ren['_%s_' % tgt.id] = tgt.id
            tgt.id = '_%s_' % tgt.id
            node.value.func.id = '_f_'
            if rng.random() < 0.5:
                node.value.args[0] = ast.Name(id='___', ctx=ast.Load())
        pats.append((ast.unparse(tree) + '\n', {'names': ren, 'exps': {}, 'steps': ['whole', 'drop', 'rename', 'hole', 'call-twins']}))
    return program, pats
