#!/bin/sh
# Build the shared Coq libraries from files on disk only (offline).
cd "$(dirname "$0")" && exec ./check --setup
